"""C06 - node ids are never handed out twice."""
from symex.run import Harness

from . import common as C
from . import persist as P


def id_request(w, version):
    node = w.fresh_int("req.node", 0, 255)
    child = w.fresh_int("req.child", 0, 255)
    ack = w.fresh_int("req.ack", 0, 1)
    return C.structured_line(w, [node, child, 3, ack, 3], "")


def response_id(w, g, what):
    """The id carried by the (at most one) id response emitted so far, or None."""
    from mysensors.message import Message
    out = C.emissions(g)
    w.check(len(out) <= 1, f"{what}: more than one emission for an id request")
    if not out:
        return None
    msg = w.new(Message, out[0])
    w.check(w.and_(w.eq(msg.type, 3), w.eq(msg.sub_type, 4)), f"{what}: reply is not an id response")
    try:
        return w.call(int, msg.payload)
    except ValueError as exc:
        w.escaped(exc, f"{what}: id response payload is not an integer")


def alloc_step(versions, N):
    def fn(w):
        version = w.pick(versions, "version")
        n = w.choose(N + 1, "nodes")
        env = C.make_env(w)
        with env.installed():
            g = C.make_gateway(w, version)
            ids = C.gen_network(w, g, ["bare"] * n)
            line = id_request(w, version)
            w.info = {"version": version, "known_ids": ids, "line": line}
            pre = list(g.gw.sensors.keys())
            try:
                C.step_line(w, g, line)
            except Exception as exc:
                w.escaped(exc, "id request raised")
            p = response_id(w, g, "id request")
            if p is None:
                w.goal("no-response")
                w.check(len(g.gw.sensors) == len(pre), "node added but no id response sent")
                return
            w.goal("response")
            w.check(w.and_(w.le(1, p), w.le(p, 254)), "handed-out id outside 1..254")
            for k in pre:
                w.check(w.ne(p, k), "handed-out id equals a known node id")
            post = list(g.gw.sensors.keys())
            w.check(len(post) == len(pre) + 1, "handed-out id not recorded as a known node")
            w.check(w.eq(post[-1], p), "handed-out id not recorded as a known node")
    return fn


def history(versions, k):
    """From the EMPTY gateway through the pump only: k node presentations with unbounded symbolic
    integer header fields - whatever the validator lets through becomes part of the network -
    each followed by an id request.  Every id handed
    out lies in 1..254, is not a known node at that moment and was not handed out before."""
    def fn(w):
        version = w.pick(versions, "version")
        env = C.make_env(w)
        with env.installed():
            g = C.make_gateway(w, version)
            handed = []
            w.info = {"version": version, "lines": []}
            for i in range(k):
                fields = [w.fresh_int(f"l{i}.{n}") for n in C.FIELDS[:5]]
                # nodes enter the network through presentations (and id requests, below)
                w.assume_fast(w.and_(w.eq(fields[2], 0), w.or_(w.eq(fields[4], 17),
                                                               w.eq(fields[4], 18))))
                line = C.structured_line(w, fields, "2.0")
                w.info["lines"].append(line)
                del g.conn.written[:]
                if C.classify(w, version, line) == "accepted":
                    try:
                        C.step_line(w, g, line)
                    except Exception as exc:
                        w.escaped(exc, "pump raised")
                req = id_request(w, version)
                w.info["lines"].append(req)
                pre = list(g.gw.sensors.keys())
                del g.conn.written[:]
                try:
                    C.step_line(w, g, req)
                except Exception as exc:
                    w.escaped(exc, "id request raised")
                p = response_id(w, g, f"id request {i + 1}")
                if p is None:
                    w.goal("no-response")
                    continue
                w.goal("response")
                w.check(w.and_(w.le(1, p), w.le(p, 254)), "handed-out id outside 1..254")
                for known in pre:
                    w.check(w.ne(p, known), "handed-out id equals a known node id")
                for old in handed:
                    w.check(w.ne(p, old), "id handed out twice")
                handed.append(p)
    return fn


def restart(versions, fmts, N):
    def fn(w):
        version = w.pick(versions, "version")
        fmt = w.pick(fmts, "format")
        n = w.choose(N + 1, "nodes")
        tick = w.flag("save_tick_between")
        fs = P.make_fs(w, fmt)
        with fs.installed():
            g = P.pgateway(w, version, fmt, cb_raises=C.sym_flag(w, "callback_raises"))
            ids = C.gen_network(w, g, ["bare"] * n)
            pers = g.gw.tasks.persistence
            pers.need_save = False
            fs.files[P.fname(fmt)] = [("GOOD", P.snapshot(g.gw.sensors)), True]
            line = id_request(w, version)
            w.info = {"version": version, "format": fmt, "known_ids": ids, "line": line,
                      "tick": tick}
            try:
                C.step_line(w, g, line)
                p1 = response_id(w, g, "first id request")
                if p1 is None:
                    w.goal("exhausted")
                    return
                if tick:
                    w.call(pers.save_sensors)
                w.call(g.gw.stop)
            except Exception as exc:
                w.escaped(exc, "first run raised")
            fs.after_crash(False)
            g2 = P.pgateway(w, version, fmt)
            try:
                w.call(g2.gw.tasks.persistence.safe_load_sensors)
                C.step_line(w, g2, id_request(w, version))
            except Exception as exc:
                w.escaped(exc, "second run raised")
            p2 = response_id(w, g2, "id request after restart")
            if p2 is None:
                w.goal("exhausted-after-restart")
                return
            w.goal("two-ids")
            w.check(w.ne(p2, p1), "the id handed out before the restart was handed out again")
            for k in ids:
                w.check(w.ne(p2, k), "id handed out after restart equals a persisted node id")
    return fn


def stop_race(fmts):
    """stop() racing with the pump that is processing an id request (one pre-emption at any
    statement boundary): an id whose response really left the gateway must be in the file."""
    def fn(w):
        from symex.sched import Sched, SchedLock
        fmt = w.pick(fmts, "format")
        fs = P.make_fs(w, fmt)
        with fs.installed():
            g = P.pgateway(w, "2.2", fmt)
            ids = C.gen_network(w, g, ["bare"])
            pers = g.gw.tasks.persistence
            pers.need_save = False
            fs.files[P.fname(fmt)] = [("GOOD", P.snapshot(g.gw.sensors)), True]
            tasks = g.gw.tasks
            w.call(tasks.add_job, g.gw.logic, "255;255;3;0;3;\n")
            sc = Sched(w, 1)
            tasks.transport._lock = SchedLock(sc)

            def pump(call):
                reply = call(tasks.run_job)
                call(tasks.transport.send, reply)
            t1 = sc.spawn("pump", pump)
            t2 = sc.spawn("stop", lambda call: call(g.gw.stop))
            sc.run()
            w.info = {"format": fmt, "schedule": list(sc.trace)[-40:]}
            for t in (t1, t2):
                if t.exc is not None:
                    w.escaped(t.exc, f"thread {t.name} raised")
            sent = [C._decode_written(d) for d, closed in g.conn.written]
            fs.after_crash(False)
            g2 = P.pgateway(w, "2.2", fmt)
            w.call(g2.gw.tasks.persistence.safe_load_sensors)
            if sent:
                w.goal("id-sent")
                from mysensors.message import Message
                p1 = w.call(int, w.get(w.new(Message, sent[0]), "payload"))
                w.check(w.or_(*[w.eq(k, p1) for k in g2.gw.sensors.keys()]),
                        "an id whose response left the gateway before stop() finished is not in "
                        "the saved file: it will be handed out again after the restart")
            else:
                w.goal("id-not-sent")
    return fn


def build(tier):
    P.contract()  # tabulated once here, inherited by every forked explorer
    q = tier == "quick"
    N = 2 if q else 3
    hs = [
        Harness("alloc-step", alloc_step(C.VERSIONS, N),
                {"known_nodes": f"0..{N} with symbolic ids in 0..255"},
                goals=["response", "no-response"],
                doc="id request from an arbitrary id constellation"),
        Harness("history", history(["1.4", "2.2"] if q else C.VERSIONS, 2),
                {"events": "2 x (node presentation, id request)",
                 "versions": ["1.4", "2.2"] if q else C.VERSIONS,
                 "fields": "unbounded ints (node, child, ack)"}, goals=["response"],
                doc="ids handed out after arbitrary accepted traffic from the empty gateway"),
        Harness("stop-restart", restart(["1.4", "2.2"] if q else C.VERSIONS, ["json", "pickle"], N),
                {"known_nodes": f"0..{N}", "formats": ["json", "pickle"]},
                goals=["two-ids"],
                doc="id request, [tick], stop(), restart + load, id request"),
        Harness("stop-race", stop_race(["json"] if q else ["json", "pickle"]),
                {"mode": "reexec", "threads": "pump processing an id request || stop()",
                 "preemption_budget": 1, "granularity": "statement boundaries of repository code"},
                goals=["id-sent", "id-not-sent"],
                doc="stop() racing with the pump: a sent id is always persisted"),
    ]
    return {
        "harnesses": hs,
        "level_text": "symbolic execution of the id allocator from arbitrary id constellations "
                      "(ids are solver variables in 0..255) and of a stop/restart cycle on the "
                      "abstract file system",
        "assumptions": ["nodes are never removed from the network (no API does)",
                        "abstract serialiser (C11 covers the real encoders)"],
        "outside": [f"more than {N} known nodes", "crashes (C12)"],
        "stubs": ["open/os.*/pickle/json -> abstract FS"],
    }
