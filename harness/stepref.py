"""One gateway step against the reference semantics (verifspec/refmodel.py).  Shared by C04, C05,
C07, C08 and C10: each property selects its assertions, all of them explore the same step."""
from symex.run import Harness

from . import common as C


# ------------------------------------------------------------------------------------------------
# projection of the real gateway in the reference model's vocabulary (containers copied, leaves
# shared)
def project(gw):
    nodes = {}
    for nid, s in gw.sensors.items():
        d = s.__dict__
        nodes[nid] = {
            "type": d["type"], "sketch_name": d["sketch_name"],
            "sketch_version": d["sketch_version"], "battery": d["_battery_level"],
            "version": d["_protocol_version"], "heartbeat": d["_heartbeat"],
            "reboot": d["reboot"],
            "children": {cid: {"type": c.type, "desc": c.description, "values": dict(c.values)}
                         for cid, c in d["children"].items()},
            "desired": {cid: dict(c.values) for cid, c in d["new_state"].items()},
            "queue": list(d["queue"]),
        }
    ota = gw.tasks.ota
    return {"nodes": nodes, "can_log": gw.can_log,
            "ota": {"firmware": dict(ota.firmware), "requested": dict(ota.requested),
                    "unstarted": dict(ota.unstarted), "started": dict(ota.started)}}


def cmd_eq(w, actual_line, expected):
    """An emitted / withheld line against an expected command: either a line (entries that were
    already withheld before the step) or a tuple (node, child, command, sub, payload)."""
    from mysensors.message import Message
    if not isinstance(expected, tuple):
        return C.line_eq(w, actual_line, expected)
    if isinstance(actual_line, tuple):
        return w.eq(actual_line, expected)
    try:
        m = w.new(Message, actual_line)
    except ValueError:
        return False
    node, child, command, sub, payload = expected
    if isinstance(payload, int) or type(payload).__name__ == "SInt":
        payload = w.text(payload)
    return w.and_(w.eq(m.node_id, node), w.eq(m.child_id, child), w.eq(m.type, command),
                  w.eq(m.sub_type, sub), w.eq(m.payload, payload))


def seq_eq(w, actual, expected):
    if len(actual) != len(expected):
        return False
    return w.and_(*[cmd_eq(w, a, e) for a, e in zip(actual, expected)])


def multiset_eq(w, actual, expected):
    """Equal as multisets (small lists): same length, and a perfect matching exists.  For the
    sizes used here (<= 3) it is enough that every element of each side occurs on the other side
    with the same multiplicity of equal partners."""
    if len(actual) != len(expected):
        return False
    if not actual:
        return True
    import itertools
    alts = []
    for perm in itertools.permutations(range(len(expected))):
        alts.append(w.and_(*[cmd_eq(w, actual[i], expected[j]) for i, j in enumerate(perm)]))
    return w.or_(*alts)


def dict_eq(w, a, b, leaf):
    if len(a) != len(b):
        return False
    out = []
    for (ka, va), (kb, vb) in zip(a.items(), b.items()):
        out.append(w.eq(ka, kb))
        out.append(leaf(va, vb))
    return w.and_(*out)


def node_eq(w, a, b):
    parts = [w.eq(a[k], b[k]) for k in ("type", "sketch_name", "sketch_version", "battery",
                                        "version", "heartbeat", "reboot")]
    parts.append(dict_eq(w, a["children"], b["children"],
                         lambda x, y: w.and_(w.eq(x["type"], y["type"]), w.eq(x["desc"], y["desc"]),
                                             dict_eq(w, x["values"], y["values"], w.eq))))
    parts.append(dict_eq(w, a["desired"], b["desired"], lambda x, y: dict_eq(w, x, y, w.eq)))
    parts.append(seq_eq(w, a["queue"], b["queue"]))
    return w.and_(*parts)


def state_eq(w, real, ref):
    parts = [dict_eq(w, real["nodes"], ref["nodes"], lambda x, y: node_eq(w, x, y)),
             real["can_log"] == ref["can_log"]]
    for store in ("requested", "unstarted", "started"):
        parts.append(dict_eq(w, real["ota"][store], ref["ota"][store], w.eq))
    parts.append(len(real["ota"]["firmware"]) == len(ref["ota"]["firmware"]))
    return w.and_(*parts)


# ------------------------------------------------------------------------------------------------
def step(versions, shapes, P, combos, checks, only=None, hexshapes=False, ota_modes=("fixed",),
         unprescribed=None):
    """checks: subset of {'state', 'callback', 'reply', 'wellformed', 'sleep'}.
    unprescribed(w, ref_state, msg) -> True for inputs whose outcome the property does not fix:
    for those only 'the pump does not raise' is checked."""
    def fn(w):
        from mysensors.message import Message
        from verifspec import refmodel as R
        from verifspec import serial_api as S
        version = w.pick(versions, "version")
        env = C.make_env(w)
        with env.installed():
            ints = [w.fresh_int(n) for n in C.FIELDS[:5]]
            if only is not None:
                w.assume_fast(only(w, version, ints))
            payload = C.hexish_payload(w, "payload") if hexshapes else C.wire_payload(w, "payload", P)
            line = C.structured_line(w, ints, payload)
            w.info = {"version": version, "line": line}
            if C.classify(w, version, line) != "accepted":
                w.goal("rejected")
                return
            flavour, transport = w.pick(combos, "flavour/transport")
            shape = w.pick(shapes, "shape")
            ota = w.pick(list(ota_modes), "ota")
            g = C.make_gateway(w, version, flavour, transport,
                               cb_raises=C.sym_flag(w, "callback_raises"),
                               persistence="callback" in checks)
            if "callback" in checks:
                g.gw.tasks.persistence.need_save = False  # as after a completed save
            ids = C.gen_network(w, g, shape)
            C.gen_ota(w, g, ids, ota)
            g.gw.metric = C.sym_flag(w, "metric")
            w.info.update({"flavour": flavour, "shape": shape, "ota": ota})
            tag = C.kind_tag(w, version, ints)
            m = w.new(Message, line)
            msg = tuple(w.get(m, f) for f in C.FIELDS)
            ref = project(g.gw)
            sleeping_before = [nid for nid, n in ref["nodes"].items() if len(n["desired"]) > 0]
            parked_before = {id(nid): len(n["queue"]) for nid, n in ref["nodes"].items()}
            local_time = env.timegm([env.local], {})
            free = unprescribed is not None and w.is_true(unprescribed(w, ref, msg))
            pre_ota = {k: dict(v) for k, v in ref["ota"].items()} if free else None
            try:
                rule, expected = w.call(R.ref_step, version, ref, msg, g.gw.metric, local_time)
            except Exception as exc:
                w.escaped(exc, f"reference model raised[{tag}]")
            try:
                C.step_line(w, g, line)
            except Exception as exc:
                w.escaped(exc, f"pump raised[{tag}]")
            real = project(g.gw)
            out = C.emissions(g)
            w.goal("accepted")
            if free:
                # outcome not fixed by the property; what is fixed: no other node's session
                # changes and the sender's session never moves backwards (started stays started,
                # nothing re-enters 'requested'), so a finished node is not offered its config again
                w.goal("unprescribed-input")
                sender = msg[0]

                def member(nid, d):
                    return w.or_(*[w.eq(nid, k) for k in d]) if d else False
                for store in ("requested", "unstarted", "started"):
                    for nid in pre_ota[store]:
                        w.check(w.or_(w.eq(nid, sender), member(nid, real["ota"][store])),
                                f"firmware session of another node changed[{tag}]")
                for nid in pre_ota["started"]:
                    w.check(member(nid, real["ota"]["started"]),
                            f"a node that was fetching blocks left the 'started' state[{tag}]")
                for nid in real["ota"]["requested"]:
                    w.check(member(nid, pre_ota["requested"]),
                            f"firmware session moved backwards[{tag}]")
                for nid in real["ota"]["unstarted"]:
                    w.check(w.or_(member(nid, pre_ota["unstarted"]), member(nid, pre_ota["requested"])),
                            f"firmware session moved backwards[{tag}]")
                return
            w.goal(f"type-{tag.split('/')[0]}")
            is_wake = (version in ("2.0", "2.1") and tag == "internal/I_HEARTBEAT_RESPONSE") or \
                      (version == "2.2" and tag == "internal/I_PRE_SLEEP_NOTIFICATION")
            if "state" in checks:
                w.check(state_eq(w, real, ref), f"state differs from the protocol meaning[{tag}]")
            if "callback" in checks:
                calls = g.events.calls
                n = len(calls)
                if rule == R.ONE:
                    w.check(n == 1, f"event callback fired {n}x for a state-changing message[{tag}]")
                elif rule == R.ZERO:
                    w.check(n == 0, f"event callback fired for a message without effect[{tag}]")
                else:
                    w.check(n <= 1, f"event callback fired {n}x[{tag}]")
                if rule == R.ONE:
                    # whatever the callback does (it may raise), everything else the message
                    # causes still happens - including the mark that the state needs saving
                    w.check(g.gw.tasks.persistence.need_save is True,
                            f"a state-changing message did not mark the state unsaved[{tag}]")
                post_snap = reported(g.gw)
                for fields, snap in calls:
                    w.check(w.eq(fields, msg), f"event callback got other fields[{tag}]")
                    w.check(w.eq(reported_of_snap(snap), post_snap),
                            f"event callback fired before the state reflected the message[{tag}]")
            if "reply" in checks:
                if is_wake and len(expected) > 0:
                    # withheld lines in order, then the desired-state sets in any order
                    nq = count_withheld(expected, w)
                    ok = w.and_(seq_eq(w, out[:nq], expected[:nq]) if len(out) >= nq else False,
                                multiset_eq(w, out[nq:], expected[nq:]))
                    w.check(ok, f"wake-up burst differs from the withheld traffic + pending "
                                f"desired values[{tag}]")
                else:
                    w.check(seq_eq(w, out, expected),
                            f"emissions differ from the prescribed reply[{tag}] "
                            f"(got {len(out)}, expected {len(expected)})")
            if "wellformed" in checks:
                for e in out:
                    C.check_canonical(w, e, f"emitted command[{tag}]")
                    try:
                        em = w.new(Message, e)
                        w.call(em.validate, version)
                    except Exception:
                        w.fail(f"emitted command is not valid for version {version}[{tag}]")
                    ok = w.call(S.accepts, version, em.node_id, em.child_id, em.type, em.ack,
                                em.sub_type, em.payload, version_stub)
                    w.check(ok, f"emitted command not valid per the serial API[{tag}]")
                    w.check(w.or_(w.eq(em.node_id, msg[0]), w.eq(em.node_id, 255)),
                            f"emitted command addressed to another node[{tag}]")
            if "wellformed" in checks:
                # what was parked in this step will be emitted at a later wake-up: it must be a
                # command the gateway may send (valid, to that node, never a presentation)
                for nid, n in real["nodes"].items():
                    for e in n["queue"][parked_before.get(id(nid), 0):]:
                        C.check_canonical(w, e, f"parked command[{tag}]")
                        em = w.new(Message, e)
                        try:
                            w.call(em.validate, version)
                        except Exception:
                            w.fail(f"parked command is not valid for version {version}[{tag}]")
                        w.check(w.and_(w.eq(em.node_id, nid), w.ne(em.type, 0)),
                                f"parked command is a presentation or addressed to another "
                                f"node[{tag}]")
            if "sleep" in checks:
                for e in out:
                    em = w.new(Message, e)
                    for nid in sleeping_before:
                        to_sleeper = w.and_(w.eq(em.node_id, nid), w.ne(em.type, 4))
                        from_it = w.and_(w.eq(msg[0], nid), is_wake)
                        w.check(w.implies(to_sleeper, from_it),
                                f"command left the gateway for a sleeping node outside its wake "
                                f"window[{tag}]")
                for nid, n in real["nodes"].items():
                    if len(n["queue"]) > 0:
                        w.check(len(n["desired"]) > 0,
                                f"command parked for a node that is not sleeping[{tag}]")
                C.check_inv(w, g)
    return fn


def reported(gw):
    """What the nodes reported (the persisted projection), as the callback should see it."""
    return tuple((k, C.snap_persisted(s)) for k, s in gw.sensors.items())


def reported_of_snap(snap):
    out = []
    for k, s in snap[0]:
        out.append((k, s[:7] + (s[8],)))
    return tuple(out)


NODE_VERSIONS = ["2.0", "1.4", "2.2"]  # what a node presentation in a history can carry
KINDS = ["node-presentation", "child-presentation", "set", "req", "wake-up", "id-request",
         "set_child_value"]


def history(versions, k, checks):
    """A bounded history from the EMPTY gateway through the public API only: k events, each a
    symbolic message of one of seven kinds (ids, value types and texts symbolic, so the events can
    hit the same or different nodes / children / types) or a controller set_child_value call.
    After every event the emissions, the callback rule and the state are compared with the
    reference model run alongside.  No state generator is involved: this is the cross-check that
    the invariant-based step harnesses and real histories agree."""
    def fn(w):
        from mysensors.message import Message
        from verifspec import refmodel as R
        version = w.pick(versions, "version")
        env = C.make_env(w)
        with env.installed():
            g = C.make_gateway(w, version, "sync", "serial",
                               cb_raises=C.sym_flag(w, "callback_raises"))
            ref = project(g.gw)
            ok_types = C.str_rule_types(version)
            node_types = {v: C.str_rule_types(v) for v in NODE_VERSIONS}
            local_time = env.timegm([env.local], {})
            w.info = {"version": version, "events": []}
            for i in range(k):
                kind = w.pick(KINDS, f"event{i}")
                n = w.fresh_int(f"e{i}.node", 0, 254)
                c = w.fresh_int(f"e{i}.child", 0, 254)
                vt = w.fresh_int(f"e{i}.vt")
                w.assume_fast(C.one_of(w, vt, ok_types))
                text = C.wire_payload(w, f"e{i}.text", 1, 1)
                del g.conn.written[:]
                del g.events.calls[:]
                if kind == "set_child_value":
                    w.info["events"].append(["set_child_value", n, c, vt, text])
                    outcome, expected = w.call(R.ref_set_child_value, version, ref, n, c, vt, text,
                                               node_types)
                    try:
                        w.call(g.gw.set_child_value, n, c, vt, text)
                        got = "ok"
                    except Exception:
                        got = "raises"
                    if outcome == "may-refuse":
                        # not valid for the node's own (older) version: either refused to the
                        # caller now, or accepted and then pending like any other desired value
                        if got == "ok":
                            w.call(R.ref_apply_desired, ref, n, c, vt, text)
                        outcome = got
                    try:
                        C.drain(w, g)
                    except Exception as exc:
                        w.escaped(exc, "pump raised after set_child_value")
                    w.check(got == outcome, f"event {i + 1}: set_child_value {got}, expected {outcome}")
                    rule = R.ZERO
                else:
                    if kind == "node-presentation":
                        fields, payload = [n, 255, 0, 0, 17], w.pick(NODE_VERSIONS, f"e{i}.ver")
                    elif kind == "child-presentation":
                        fields, payload = [n, c, 0, 0, w.fresh_int(f"e{i}.ptype", 0, 25)], text
                    elif kind == "set":
                        fields, payload = [n, c, 1, 0, vt], text
                    elif kind == "req":
                        fields, payload = [n, c, 2, 0, vt], ""
                    elif kind == "wake-up":
                        fields, payload = [n, 255, 3, 0, R.wakeup_sub(version)], "5"
                    else:
                        fields, payload = [255, 255, 3, 0, 3], ""
                    line = C.structured_line(w, fields, payload)
                    w.info["events"].append(line)
                    if C.classify(w, version, line) != "accepted":
                        continue  # e.g. a wake-up sub-type that does not exist before 2.0
                    m = w.new(Message, line)
                    msg = tuple(w.get(m, f_) for f_ in C.FIELDS)
                    try:
                        rule, expected = w.call(R.ref_step, version, ref, msg, g.gw.metric,
                                                local_time)
                    except Exception as exc:
                        w.escaped(exc, "reference model raised")
                    try:
                        C.step_line(w, g, line)
                    except Exception as exc:
                        w.escaped(exc, f"pump raised at event {i + 1} ({kind})")
                out = C.emissions(g)
                real = project(g.gw)
                if "reply" in checks:
                    is_wake = kind == "wake-up"
                    w.check(seq_eq(w, out, expected) if not is_wake else
                            wake_eq(w, out, expected),
                            f"event {i + 1} ({kind}): emissions differ from the prescribed ones "
                            f"(got {len(out)}, expected {len(expected)})")
                if "callback" in checks:
                    ncb = len(g.events.calls)
                    if rule == R.ONE:
                        w.check(ncb == 1, f"event {i + 1} ({kind}): callback fired {ncb}x")
                    elif rule == R.ZERO:
                        w.check(ncb == 0, f"event {i + 1} ({kind}): callback fired {ncb}x")
                    else:
                        w.check(ncb <= 1, f"event {i + 1} ({kind}): callback fired {ncb}x")
                if "state" in checks:
                    w.check(state_eq(w, real, ref),
                            f"event {i + 1} ({kind}): state differs from the protocol meaning")
                if "sleep" in checks:
                    C.check_inv(w, g)
            w.goal("history")
    return fn


def wake_eq(w, out, expected):
    """Wake-up burst: some prefix (the withheld commands) in order, the rest (desired-state sets
    produced by the flush) in any order.  The split point is not marked in the expected list, so
    every split is tried."""
    if len(out) != len(expected):
        return False
    alts = []
    for cut in range(len(expected), -1, -1):
        if len(expected) - cut > 3:
            break
        alts.append(w.and_(seq_eq(w, out[:cut], expected[:cut]),
                           multiset_eq(w, out[cut:], expected[cut:])))
    return w.or_(*alts)


def version_stub(text):
    raise TypeError("version rule reached for an emitted command")


version_stub.__symex_native__ = True


def count_withheld(expected, w):
    """Number of leading expected emissions that were withheld lines (pre-existing queue entries
    are lines, commands parked during earlier steps are tuples; desired-state sets come last and
    are tuples with command 1 produced by wake_up after the queue was drained)."""
    n = 0
    for e in expected:
        if isinstance(e, tuple):
            break
        n += 1
    return n


def build_for(prop, checks, tier, level_text, extra=None, versions=None, only=None):
    q = tier == "quick"
    versions = versions or C.VERSIONS
    combos = [("sync", "serial"), ("async", "serial")]
    shapes = [[], ["sleep", "awake"], ["sleep_v21"]] if q else \
        [[], ["sleep", "awake"], ["awake", "sleep"], ["sleep2", "awake1"], ["sleep_old", "bare"],
         ["sleep_v21", "awake1"]]
    P = 1 if q else 2
    hs = [Harness("step-vs-reference", step(versions, shapes, P, combos, checks, only=only),
                  {"payload_atoms_max": P, "header_ints": "unbounded", "shapes": shapes,
                   "flavours": combos, "assertions": sorted(checks)},
                  goals=["accepted"] + [f"type-{t}" for t in ("presentation", "set", "req",
                                                               "internal", "stream")
                                        if only is None],
                  doc="one accepted message from an arbitrary state: implementation == reference")]
    hv = versions
    if q and len(versions) > 3:
        hv = ["1.4", "2.0", "2.2"]
    hs.append(Harness("history-from-empty", history(hv, 3, checks),
                      {"events": 3, "kinds": KINDS, "start": "empty gateway", "versions": hv,
                       "ids / value types / texts": "symbolic"},
                      goals=["history"], timeout_ms=20000,
                      doc="bounded histories through the public API vs the reference model"))
    if not q:
        hs.append(Harness("history-from-empty-4", history(["2.2"], 4, checks),
                          {"events": 4, "kinds": KINDS, "start": "empty gateway",
                           "versions": ["2.2"]},
                          goals=["history"], timeout_ms=20000,
                          doc="four-event histories (version 2.2) vs the reference model"))
    hs += list(extra or [])
    return {
        "harnesses": hs,
        "level_text": level_text,
        "assumptions": ["pre-states satisfy Inv on the listed shapes (DESIGN Appendix B)",
                        "reference semantics: verifspec/refmodel.py (DESIGN Appendix C)",
                        "the ack flag of replies is not prescribed and not compared"],
        "outside": ["payloads longer than the bound", "states larger than the listed shapes",
                    "rejected lines (C01 shows they have no effect)"],
        "stubs": ["logging -> no-op", "time.localtime/calendar.timegm -> uninterpreted",
                  "connection object / event callback -> recording fakes"],
        "budget_s": 3000 if q else 14400,
    }
