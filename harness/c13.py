"""C13 - start-up survives damaged persistence files."""
from symex.run import Harness

from . import common as C
from . import persist as P

KINDS = ["missing", "good", "empty", "truncated", "zero"]


def put(fs, path, kind, state):
    if kind == "missing":
        return
    content = {"good": ("GOOD", state), "empty": ("EMPTY",), "truncated": ("PARTIAL", state),
               "zero": ("ZERO",)}[kind]
    fs.files[path] = [content, True]


def load(fmts):
    def fn(w):
        fmt = w.pick(fmts, "format")
        km = w.pick(KINDS, "main")
        kb = w.pick(KINDS, "backup")
        fs = P.make_fs(w, fmt)
        with fs.installed():
            main = P.fname(fmt)
            s_main, s_bak = P.small_state(w, "main"), P.small_state(w, "bak")
            put(fs, main, km, s_main)
            put(fs, main + ".bak", kb, s_bak)
            w.info = {"format": fmt, "main": km, "backup": kb,
                      "contract": [c.__name__ for c in fs.contract[fmt]]}
            g = P.pgateway(w, "1.4", fmt)
            try:
                w.call(g.gw.tasks.persistence.safe_load_sensors)
            except Exception as exc:
                w.escaped(exc, f"start-up load raised[main={km},backup={kb}]")
            loaded = P.snapshot(g.gw.sensors)
            want = s_main if km == "good" else (s_bak if kb == "good" else ())
            w.goal("main" if km == "good" else ("backup" if kb == "good" else "empty"))
            w.check(w.eq(loaded, want), f"loaded state wrong[main={km},backup={kb}]")
    return fn


def build(tier):
    contract, prefix_decodes, total = P.contract()
    hs = [Harness("damaged-load", load(["json", "pickle"]),
                  {"main/backup": KINDS, "decoder_exception": "symbolic member of the contract",
                   "contract": {k: [c.__name__ for c in v] for k, v in contract.items()},
                   "contract_tabulated_on": f"{total} truncations / zero-fills of real files",
                   "prefixes_that_decoded": prefix_decodes},
                  goals=["main", "backup", "empty"],
                  doc="safe_load_sensors over every main x backup damage combination")]
    return {
        "harnesses": hs,
        "level_text": "symbolic execution of the real safe_load_sensors/_load_sensors on the "
                      "abstract file system; the decoder raises a symbolic member of the "
                      "natively tabulated exception contract of json.load / pickle.load",
        "assumptions": ["a strict prefix / zero-fill of a valid file never decodes successfully "
                        "(observed on the tabulated files, not proved)",
                        "decoder contract = exception classes observed on all truncations of "
                        "three real saved states per format"],
        "outside": ["byte-level decoding (C code)", "hand-edited files"],
        "stubs": ["open/os.*/pickle/json -> abstract FS and serialiser (symex/fsenv.py)"],
    }
