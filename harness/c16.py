"""C16 - sending races safely with connection loss and shutdown."""
from symex.run import Harness
from symex.sched import Sched, SchedLock

from . import common as C

LINE = "1;1;1;0;2;1\n"


def conn_events():
    return ["disconnect", "lost(None)", "lost(exc)", "lost(exc)+made(new)"]


def send_vs_event(budget):
    def fn(w):
        which = w.pick(conn_events(), "event")
        env = C.make_env(w)
        with env.installed():
            g = C.make_gateway(w, "2.2")
            gw = g.gw
            tr = gw.tasks.transport
            proto = tr.protocol
            conn = g.conn
            reconnects = []
            tr.connect = C.Recorder0(reconnects)
            proto.conn_lost_callback = tr.connect
            lost_calls = []
            gw.on_conn_lost = C.Recorder2(lost_calls)
            conn.fail_flag = C.sym_flag(w, "write_fails")
            conn.w = w
            new_conn = C.FakeConn("new")
            sc = Sched(w, budget)
            tr._lock = SchedLock(sc)
            w.info = {"event": which, "budget": budget}
            t1 = sc.spawn("sender", lambda call: call(tr.send, LINE))
            if which == "disconnect":
                t2 = sc.spawn("event", lambda call: call(tr.disconnect))
            elif which == "lost(None)":
                t2 = sc.spawn("event", lambda call: call(proto.connection_lost, None))
            elif which == "lost(exc)":
                t2 = sc.spawn("event", lambda call: call(proto.connection_lost, OSError("gone")))
            else:
                def both(call):
                    call(proto.connection_lost, OSError("gone"))
                    call(proto.connection_made, new_conn)
                t2 = sc.spawn("event", both)
            sc.run()
            w.info["schedule"] = list(sc.trace)
            if t1.exc is not None:
                w.escaped(t1.exc, f"send raised into the pump during {which}")
            if t2.exc is not None:
                w.escaped(t2.exc, f"{which} raised")
            writes = list(conn.written) + list(new_conn.written)
            full = [x for x in writes]
            w.check(len(full) <= 1, f"command written twice during {which}")
            for data, closed in writes:
                w.check(not closed, f"command written to a connection that was already closed "
                                    f"during {which}")
                w.check(w.eq(C._decode_written(data), LINE), "partial / altered command written")
            w.goal(which)
            w.goal("written" if writes else "dropped")
    return fn


def producers_vs_pump(budget):
    def fn(w):
        env = C.make_env(w)
        with env.installed():
            g = C.make_gateway(w, "2.2")
            tasks = g.gw.tasks
            sc = Sched(w, budget)
            tasks.transport._lock = SchedLock(sc)
            jobs = {"A": ["A1\n", "A2\n"], "B": ["B1\n"]}

            def producer(name):
                def body(call):
                    for j in jobs[name]:
                        call(tasks.add_job, str, j)
                return body

            def pump(call):
                for _ in range(4):
                    reply = call(tasks.run_job)
                    call(tasks.transport.send, reply)
            ts = [sc.spawn("A", producer("A")), sc.spawn("B", producer("B")),
                  sc.spawn("pump", pump)]
            sc.run()
            w.info = {"budget": budget, "schedule": list(sc.trace)}
            for t in ts:
                if t.exc is not None:
                    w.escaped(t.exc, f"thread {t.name} raised")
            try:
                C.drain(w, g)  # whatever is still queued goes out afterwards
            except Exception as exc:
                w.escaped(exc, "drain raised")
            sent = [C._decode_written(d) for d, closed in g.conn.written]
            w.check(sorted(sent) == sorted(jobs["A"] + jobs["B"]),
                    "a queued command was lost or sent more than once")
            w.check(sent.index("A1\n") < sent.index("A2\n"),
                    "commands of one producer were sent out of queue order")
            w.goal("pumped")
    return fn


def build(tier):
    q = tier == "quick"
    b = 2 if q else 3
    hs = [
        Harness("send-vs-event", send_vs_event(b),
                {"mode": "reexec", "preemption_budget": b, "granularity": "statement boundaries "
                 "of repository code", "events": conn_events(), "write_may_fail": "symbolic"},
                goals=conn_events() + ["written", "dropped"],
                doc="SyncTransport.send || connection lost / disconnect / reconnect"),
        Harness("producers-vs-pump", producers_vs_pump(b),
                {"mode": "reexec", "preemption_budget": b, "producers": 2, "jobs": 3},
                goals=["pumped"], doc="two producers calling add_job || the pump loop body"),
    ]
    return {
        "harnesses": hs,
        "level_text": "exhaustive exploration of thread schedules at statement granularity up to "
                      "a pre-emption bound over the real Transport.send / disconnect / "
                      "connection_lost / add_job / run_job source (modelled threads + baton); the "
                      "solver prunes infeasible data/schedule combinations and decides the "
                      "assertions over the symbolic write-failure flag",
        "assumptions": ["C-level operations (deque.append/popleft, attribute loads inside one "
                        "statement) are atomic", "the send lock is modelled by a scheduler lock"],
        "outside": [f"more than {b} pre-emptions", "pre-emption inside one statement",
                    "real OS threads"],
        "stubs": ["connection objects -> recording fakes", "threading.Lock -> scheduler lock"],
    }
