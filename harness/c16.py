"""C16 - sending races safely with connection loss and shutdown."""
from symex.run import Harness
from symex.sched import Sched, SchedLock

from . import common as C

LINE = "1;1;1;0;2;1\n"


def conn_events():
    return ["disconnect", "lost(None)", "lost(exc)", "lost(exc)+made(new)"]


class FakeSock:
    """Socket object under the real TCPTransport: what CPython's socket / select do on a socket
    that another thread has closed (EBADF from sendall; select() refuses the -1 descriptor with
    ValueError)."""

    __symex_native__ = True
    __symex_opaque__ = True

    def __init__(self, name="sock"):
        self.name = name
        self.written = []
        self.closed = False
        self.fail_flag = None
        self.w = None

    def setblocking(self, flag):
        pass

    def fileno(self):
        return -1 if self.closed else 7

    def sendall(self, data):
        from symex.core import prog
        if self.closed:
            raise prog(OSError(9, "Bad file descriptor"))
        if self.fail_flag is not None and self.w.is_true(self.fail_flag):
            raise prog(OSError("send failed"))
        self.written.append((data, self.closed))

    def recv(self, n):
        from symex.core import prog
        if self.closed:
            raise prog(OSError(9, "Bad file descriptor"))
        return b""

    def close(self):
        self.closed = True

    def __repr__(self):
        return f"<FakeSock {self.name}>"


def fake_select(a, k):
    from symex.core import prog
    for group in a[:3]:
        for s in group:
            if s.fileno() < 0:
                raise prog(ValueError("file descriptor cannot be a negative integer (-1)"))
    return ([], list(a[1]), [])


def tcp_link(w, sc, proto, name):
    """The threaded TCP gateway's real connection object (TCPTransport.write / ReaderThread.close
    from source) over a fake socket; its lock is a scheduler lock, the reader thread itself is
    not running (its join is a no-op)."""
    from mysensors import gateway_tcp
    sock = FakeSock(name)

    def check_conn():
        return None
    check_conn.__symex_native__ = True
    link = w.new(gateway_tcp.TCPTransport, sock, C.Factory(proto), check_conn)
    link._lock = SchedLock(sc)

    def join(timeout=None):
        return None
    join.__symex_native__ = True
    link.join = join
    return link, sock


def send_vs_event(budget, link_kind="serial"):
    def fn(w):
        import select as _select
        which = w.pick(conn_events(), "event")
        env = C.make_env(w)
        env.add(_select.select, fake_select, "select.select")
        with env.installed():
            g = C.make_gateway(w, "2.2")
            gw = g.gw
            tr = gw.tasks.transport
            proto = tr.protocol
            conn = g.conn
            reconnects = []
            tr.connect = C.Recorder0(reconnects)
            proto.conn_lost_callback = tr.connect
            lost_calls = []
            gw.on_conn_lost = C.Recorder2(lost_calls)
            conn.fail_flag = C.sym_flag(w, "write_fails")
            conn.w = w
            new_conn = C.FakeConn("new")
            sc = Sched(w, budget)
            tr._lock = SchedLock(sc)
            if link_kind == "tcp":
                flag = conn.fail_flag
                link, conn = tcp_link(w, sc, proto, "sock")
                conn.fail_flag, conn.w = flag, w
                proto.transport = link
                new_conn, new_sock = tcp_link(w, sc, proto, "new")
            w.info = {"event": which, "budget": budget, "link": link_kind}
            t1 = sc.spawn("sender", lambda call: call(tr.send, LINE))
            if which == "disconnect":
                t2 = sc.spawn("event", lambda call: call(tr.disconnect))
            elif which == "lost(None)":
                t2 = sc.spawn("event", lambda call: call(proto.connection_lost, None))
            elif which == "lost(exc)":
                t2 = sc.spawn("event", lambda call: call(proto.connection_lost, OSError("gone")))
            else:
                def both(call):
                    call(proto.connection_lost, OSError("gone"))
                    call(proto.connection_made, new_conn)
                t2 = sc.spawn("event", both)
            sc.run()
            w.info["schedule"] = list(sc.trace)
            if t1.exc is not None:
                w.escaped(t1.exc, f"send raised into the pump during {which}")
            if t2.exc is not None:
                w.escaped(t2.exc, f"{which} raised")
            writes = list(conn.written) + list((new_sock if link_kind == "tcp" else
                                                new_conn).written)
            full = [x for x in writes]
            w.check(len(full) <= 1, f"command written twice during {which}")
            for data, closed in writes:
                w.check(not closed, f"command written to a connection that was already closed "
                                    f"during {which}")
                w.check(w.eq(C._decode_written(data), LINE), "partial / altered command written")
            w.goal(which)
            w.goal("written" if writes else "dropped")
    return fn


def producers_vs_pump(budget):
    def fn(w):
        env = C.make_env(w)
        with env.installed():
            g = C.make_gateway(w, "2.2")
            tasks = g.gw.tasks
            sc = Sched(w, budget)
            tasks.transport._lock = SchedLock(sc)
            jobs = {"A": ["A1\n", "A2\n"], "B": ["B1\n"]}

            def producer(name):
                def body(call):
                    for j in jobs[name]:
                        call(tasks.add_job, str, j)
                return body

            def pump(call):
                for _ in range(4):
                    reply = call(tasks.run_job)
                    call(tasks.transport.send, reply)
            ts = [sc.spawn("A", producer("A")), sc.spawn("B", producer("B")),
                  sc.spawn("pump", pump)]
            sc.run()
            w.info = {"budget": budget, "schedule": list(sc.trace)}
            for t in ts:
                if t.exc is not None:
                    w.escaped(t.exc, f"thread {t.name} raised")
            try:
                C.drain(w, g)  # whatever is still queued goes out afterwards
            except Exception as exc:
                w.escaped(exc, "drain raised")
            sent = [C._decode_written(d) for d, closed in g.conn.written]
            w.check(sorted(sent) == sorted(jobs["A"] + jobs["B"]),
                    "a queued command was lost or sent more than once")
            w.check(sent.index("A1\n") < sent.index("A2\n"),
                    "commands of one producer were sent out of queue order")
            w.goal("pumped")
    return fn


class ThreadStub:
    """threading.Thread whose target runs as a modelled thread of the scheduler."""

    __symex_native__ = True
    __symex_opaque__ = True

    def __init__(self, sc, spawned, target, args):
        self.sc, self.spawned, self.target, self.args = sc, spawned, target, tuple(args)
        self.daemon = False
        self.t = None

    def start(self):
        name = getattr(self.target, "__name__", "thread")
        target, args = self.target, self.args
        self.t = self.sc.spawn(f"{name}#{len(self.spawned)}", lambda call: call(target, *args))
        self.spawned.append(self.t)

    def join(self, timeout=None):
        t = self.t
        if t is not None:
            self.sc.wait_until(lambda: t.done, "join")

    def is_alive(self):
        return self.t is not None and not self.t.done


def pump_lifecycle(budget, transports):
    """The real SyncTasks.start() / _poll_queue() / stop() with the pump as a modelled thread:
    two producers queue commands while the controller starts the gateway, stops it, and (as a
    controller that reconnects does) starts and stops it again.  Whatever is sent is sent at most
    once and in queue order, nothing raises in any thread, and after the final stop() every pump
    thread has ended."""
    def fn(w):
        import threading as _threading
        import time as _time
        transport = w.pick(transports, "transport")
        restart = w.flag("stop_and_start_again")
        env = C.make_env(w)
        sc = Sched(w, budget, atomic=("mysensors.message",))
        spawned = []
        env.add(_threading.Thread, lambda a, k: ThreadStub(sc, spawned, k.get("target"),
                                                           k.get("args", ())), "threading.Thread")
        holder = {}

        def idle(a, k):
            tasks = holder["tasks"]
            sc.wait_until(lambda: len(tasks.queue) > 0 or tasks._stop_event.is_set(), "idle")
        env.add(_time.sleep, idle, "time.sleep")
        with env.installed():
            g = C.make_gateway(w, "2.2", "sync", transport)
            tasks = holder["tasks"] = g.gw.tasks
            if transport == "serial":
                tasks.transport._lock = SchedLock(sc)
            jobs = {"A": ["A1\n", "A2\n"], "B": ["B1\n"]}
            if transport == "mqtt":
                jobs = {"A": ["1;1;1;0;2;1\n", "1;1;1;0;2;2\n"], "B": ["2;1;1;0;2;3\n"]}
            state = {"phase": 0}

            def controller(call):
                call(g.gw.start)
                state["phase"] = 1
                sc.wait_until(lambda: state.get("A") and state.get("B"), "producers")
                call(g.gw.stop)
                if restart:
                    call(g.gw.start)
                    for j in jobs["A"]:
                        call(tasks.add_job, str, j.replace("1\n", "7\n").replace("2\n", "8\n"))
                    # the controller lets the commands go out (if a pump is there to send them)
                    sc.wait_until(lambda: len(tasks.queue) == 0 or
                                  all(t.done for t in spawned), "drained")
                    call(g.gw.stop)

            def producer(name):
                def body(call):
                    for j in jobs[name]:
                        call(tasks.add_job, str, j)
                    state[name] = True
                return body
            main = [sc.spawn("controller", controller), sc.spawn("A", producer("A")),
                    sc.spawn("B", producer("B"))]
            sc.run()
            w.info = {"budget": budget, "transport": transport, "restart": restart,
                      "schedule": list(sc.trace)}
            for t in main + spawned:
                if t.exc is not None:
                    w.escaped(t.exc, f"thread {t.name.split('#')[0]} raised")
            w.check(all(t.done for t in spawned), "a pump thread is still running after stop()")
            if transport == "serial":
                sent = [C._decode_written(d) for d, closed in g.conn.written]
            else:
                sent = [f"{t_.strip('/').split('/')[0]};{p_}" for (t_, p_, q_, r_) in g.pubsub.published]
                jobs = {k: [f"{j.split(';')[0]};{j.strip().split(';')[5]}" for j in v]
                        for k, v in jobs.items()}
            allj = jobs["A"] + jobs["B"]
            first = [x for x in sent if x in allj]
            w.check(len(first) == len(set(first)), "a queued command was sent more than once")
            if jobs["A"][0] in first and jobs["A"][1] in first:
                w.check(first.index(jobs["A"][0]) < first.index(jobs["A"][1]),
                        "commands of one producer were sent out of queue order")
            w.check(not (jobs["A"][1] in first and jobs["A"][0] not in first),
                    "a later command was sent although an earlier one of the same producer "
                    "was not")
            later = [x for x in sent if x not in allj]
            w.check(len(later) == len(set(later)), "a queued command was sent more than once")
            w.check(later == sorted(later), "commands queued after the restart were sent out of "
                                            "queue order")
            w.goal("restarted" if restart else "stopped")
    return fn


def build(tier):
    q = tier == "quick"
    b = 2 if q else 3
    hs = [
        Harness("send-vs-event", send_vs_event(b),
                {"mode": "reexec", "preemption_budget": b, "granularity": "statement boundaries "
                 "of repository code", "events": conn_events(), "write_may_fail": "symbolic"},
                goals=conn_events() + ["written", "dropped"],
                doc="SyncTransport.send || connection lost / disconnect / reconnect"),
        Harness("send-vs-event-tcp", send_vs_event(b, "tcp"),
                {"mode": "reexec", "preemption_budget": b, "link": "real TCPTransport.write / "
                 "ReaderThread.close over a fake socket (closed socket: sendall -> EBADF, "
                 "select -> ValueError)", "events": conn_events(), "write_may_fail": "symbolic"},
                goals=conn_events() + ["written", "dropped"],
                doc="SyncTransport.send through the threaded TCP link || loss / disconnect"),
        Harness("pump-lifecycle", pump_lifecycle(1, ["mqtt"] if q else ["mqtt", "serial"]),
                {"mode": "reexec", "preemption_budget": 1, "threads": "controller (start, stop, "
                 "optionally start + 2 commands + stop), 2 producers (2 + 1 commands), the real "
                 "_poll_queue pump(s) and connect thread(s)", "idle_polling": "abstracted to a "
                 "wait for 'queue not empty or stop requested'",
                 "transports": ["mqtt"] if q else ["mqtt", "serial"],
                 "atomic": "functions of mysensors.message (thread-local data only)"},
                goals=["stopped", "restarted"],
                doc="real SyncTasks.start/_poll_queue/stop as modelled threads"),
        Harness("producers-vs-pump", producers_vs_pump(b),
                {"mode": "reexec", "preemption_budget": b, "producers": 2, "jobs": 3},
                goals=["pumped"], doc="two producers calling add_job || the pump loop body"),
    ]
    return {
        "harnesses": hs,
        "level_text": "exhaustive exploration of thread schedules at statement granularity up to "
                      "a pre-emption bound over the real Transport.send / disconnect / "
                      "connection_lost / add_job / run_job source (modelled threads + baton); the "
                      "solver prunes infeasible data/schedule combinations and decides the "
                      "assertions over the symbolic write-failure flag",
        "assumptions": ["C-level operations (deque.append/popleft, attribute loads inside one "
                        "statement) are atomic", "the send lock is modelled by a scheduler lock"],
        "outside": [f"more than {b} pre-emptions", "pre-emption inside one statement",
                    "real OS threads"],
        "stubs": ["connection objects -> recording fakes", "threading.Lock -> scheduler lock"],
    }
