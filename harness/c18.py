"""C18 - documented configuration is accepted and honoured."""
from symex.run import Harness

from . import common as C
from . import persist as P

SUPPORTED = [(1, 4), (1, 5), (2, 0), (2, 1), (2, 2)]


def floor_version(text):
    """Reference: highest supported version not above major.minor (numeric); 1.4 for older or
    invalid strings."""
    if isinstance(text, (int, float)) and not isinstance(text, bool):
        text = str(text)  # a number means its usual decimal spelling
    if not isinstance(text, str):
        return (1, 4)
    parts = text.split(".")
    if len(parts) not in (1, 2, 3) or not all(p.isascii() and p.isdigit() for p in parts):
        return (1, 4)
    mm = (int(parts[0]), int(parts[1]) if len(parts) > 1 else 0)
    best = (1, 4)
    for s in SUPPORTED:
        if s <= mm:
            best = s
    return best


def module_name(v):
    return f"mysensors.const_{v[0]}{v[1]}"


def classes():
    from mysensors import gateway_mqtt, gateway_serial, gateway_tcp
    return {
        "SerialGateway": (gateway_serial.SerialGateway, "serial"),
        "AsyncSerialGateway": (gateway_serial.AsyncSerialGateway, "serial"),
        "TCPGateway": (gateway_tcp.TCPGateway, "tcp"),
        "AsyncTCPGateway": (gateway_tcp.AsyncTCPGateway, "tcp"),
        "MQTTGateway": (gateway_mqtt.MQTTGateway, "mqtt"),
        "AsyncMQTTGateway": (gateway_mqtt.AsyncMQTTGateway, "mqtt"),
    }


def constructor_matrix():
    def fn(w):
        name = w.pick(sorted(classes()), "class")
        cls, kind = classes()[name]
        fs = P.make_fs(w, "json")
        with fs.installed():
            kw = {}
            cb = C.EventLog(False, w)
            if w.flag("event_callback"):
                kw["event_callback"] = cb
            if w.flag("persistence"):
                kw["persistence"] = True
            if w.flag("persistence_file"):
                kw["persistence_file"] = "/fs/custom.json"
            pv = None
            if w.flag("protocol_version"):
                pv = w.pick(["1.5", "2.2"], "protocol_version_value")
                kw["protocol_version"] = pv
            pubsub = C.PubSubLog()
            if kind == "serial":
                args = ["/dev/ttyX"]
                if w.flag("baud"):
                    kw["baud"] = w.fresh_int("baud", 1)
            elif kind == "tcp":
                args = ["127.0.0.1"]
                if w.flag("port"):
                    kw["port"] = w.fresh_int("port", 1, 65535)
            else:
                args = [pubsub.pub, pubsub.sub]
                if w.flag("in_prefix"):
                    kw["in_prefix"] = "in/x"
                if w.flag("out_prefix"):
                    kw["out_prefix"] = "out/y"
                if w.flag("retain"):
                    kw["retain"] = False
            if kind in ("serial", "tcp"):
                if w.flag("timeout"):
                    kw["timeout"] = w.fresh_real("timeout", 0)
                if w.flag("reconnect_timeout"):
                    kw["reconnect_timeout"] = w.fresh_real("reconnect_timeout", 0)
            w.info = {"class": name, "options": sorted(kw)}
            try:
                gw = w.new(cls, *args, **kw)
            except Exception as exc:
                w.escaped(exc, f"{name}() raised")
            tr = gw.tasks.transport
            chk = w.check
            chk(gw.event_callback is (cb if "event_callback" in kw else None), "event_callback lost")
            if "persistence" in kw:
                chk(gw.tasks.persistence is not None, "persistence=True ignored")
                want = kw.get("persistence_file", "mysensors.pickle")
                chk(gw.tasks.persistence.persistence_file == want, "persistence_file ignored")
            else:
                chk(gw.tasks.persistence is None, "persistence enabled although not requested")
            chk(gw.protocol_version == (pv or "1.4"), "protocol_version ignored")
            chk(gw.const.__name__ == module_name(floor_version(pv or "1.4")),
                "protocol version selects the wrong tables")
            if kind == "serial":
                chk(gw.port == "/dev/ttyX", "port lost")
                chk(w.eq(gw.baud, kw.get("baud", 115200)), "baud ignored")
            if kind == "tcp":
                chk(w.eq(gw.server_address[1], kw.get("port", 5003)) and
                    gw.server_address[0] == "127.0.0.1", "host/port ignored")
            if kind == "mqtt":
                chk(tr.in_prefix == kw.get("in_prefix", "") and
                    tr.out_prefix == kw.get("out_prefix", ""), "MQTT prefixes ignored")
                chk(tr._retain is kw.get("retain", True), "retain ignored")
            else:
                chk(w.eq(tr.timeout, kw.get("timeout", 1.0)), "timeout ignored")
                chk(w.eq(tr.reconnect_timeout, kw.get("reconnect_timeout", 10.0)),
                    "reconnect_timeout ignored")
            # behavioural probe: the options still take effect on the first message, whatever
            # the other options are (e.g. persistence without an event callback)
            if gw.tasks.persistence is not None:
                gw.tasks.persistence.need_save = False  # as after the initial save
            try:
                w.call(gw.logic, "1;255;0;0;17;2.0\n")
            except Exception as exc:
                w.escaped(exc, f"{name}: first message raised")
            chk(1 in gw.sensors, "node presentation not recorded")
            chk(len(cb.calls) == (1 if "event_callback" in kw else 0),
                "event callback option has no effect on the first state-changing message")
            if "persistence" in kw:
                chk(gw.tasks.persistence.need_save is True,
                    "persistence=True has no effect: a state change is not marked for saving")
            w.goal("constructed")
    return fn


def options_reach_device():
    """port / baud / timeout / reconnect_timeout / host:port take effect where they matter: the
    threaded connect loops hand them to the device constructor and wait reconnect_timeout between
    attempts (one failing attempt is observed, then the gateway is stopped)."""
    def fn(w):
        import time as _t
        from mysensors import gateway_serial, gateway_tcp
        from symex.core import prog
        which = w.pick(["serial", "tcp"], "gateway")
        env = C.make_env(w)
        calls = []
        kw = {}
        if w.flag("timeout"):
            kw["timeout"] = w.fresh_real("timeout", 0)
        if w.flag("reconnect_timeout"):
            kw["reconnect_timeout"] = w.fresh_real("reconnect_timeout", 0)
        with env.installed():
            if which == "serial":
                import serial
                if w.flag("baud"):
                    kw["baud"] = w.fresh_int("baud", 1)
                gw = w.new(gateway_serial.SerialGateway, "/dev/ttyX", **kw)

                def dev(a, k):
                    calls.append((list(a), dict(k)))
                    raise prog(serial.SerialException("no device"))
                env.add(serial.serial_for_url, dev, "serial.serial_for_url")
                loop = gateway_serial.sync_connect
            else:
                import socket
                if w.flag("port"):
                    kw["port"] = w.fresh_int("port", 1, 65535)
                gw = w.new(gateway_tcp.TCPGateway, "10.0.0.7", **kw)

                def dev(a, k):
                    calls.append((list(a), dict(k)))
                    raise prog(OSError("refused"))
                env.add(socket.create_connection, dev, "socket.create_connection")
                loop = gateway_tcp.sync_connect
            tr = gw.tasks.transport
            sleeps = []

            def sleeper(a, k):
                sleeps.append(a[0])
                tr.protocol = None  # the user stops the gateway while the loop waits
            env.add(_t.sleep, sleeper, "time.sleep")
            w.info = {"gateway": which, "options": sorted(kw)}
            with env.installed():
                try:
                    w.call(loop, tr)
                except Exception as exc:
                    w.escaped(exc, f"{which} connect loop raised")
            w.check(len(calls) == 1 and len(sleeps) == 1, "connect loop did not try the device once")
            a, k = calls[0]
            flat = list(a) + list(k.values())
            if which == "serial":
                w.check(len(a) >= 1 and a[0] == "/dev/ttyX", "port option does not reach the device")
                baud = a[1] if len(a) > 1 else k.get("baudrate", k.get("baud"))
                w.check(baud is not None and w.truth(w.eq(baud, kw.get("baud", 115200))),
                        "baud option does not reach the device")
                w.check("timeout" in k and w.truth(w.eq(k["timeout"], kw.get("timeout", 1.0))),
                        "timeout option does not reach the device")
            else:
                addr = a[0] if a else k.get("address")
                w.check(addr is not None and addr[0] == "10.0.0.7" and
                        w.truth(w.eq(addr[1], kw.get("port", 5003))),
                        "host / port options do not reach the socket")
            w.check(w.truth(w.eq(sleeps[0], kw.get("reconnect_timeout", 10.0))),
                    "reconnect_timeout option is not the delay between connect attempts")
            w.goal(which)
    return fn


def version_grid():
    grid = []
    for major in range(0, 4):
        for minor in range(0, 13):
            grid.append(f"{major}.{minor}")
            for patch in range(0, 4):
                grid.append(f"{major}.{minor}.{patch}")
    return grid


EXTRA = ["", "abc", "one.two", None, 2.0, 1.5, 22, "2,0"]


def version_selection(grid):
    """(b) the configured / presented version string selects the floor version's behaviour."""
    def fn(w):
        import mysensors
        from mysensors.const import get_const
        from mysensors.sensor import Sensor
        i = w.choose(len(grid), "version_string")
        text = grid[i]
        want = floor_version(text)
        env = C.make_env(w)
        with env.installed():
            w.info = {"version_string": text, "expected": f"{want[0]}.{want[1]}"}
            try:
                g = C.make_gateway(w, text)
            except Exception as exc:
                w.escaped(exc, "Gateway(protocol_version=...) raised")
            w.check(g.gw.const.__name__ == module_name(want),
                    f"gateway tables: got {g.gw.const.__name__[-2:]}, floor is {want[0]}{want[1]}")
            # behaviour, not only tables: unknown nodes are asked to present themselves from 2.0 on
            line = C.structured_line(w, [7, 1, 1, 0, 0], "1")
            try:
                C.step_line(w, g, line)
            except Exception as exc:
                w.escaped(exc, "step raised")
            asked = len(C.emissions(g)) == 1
            w.check(asked == (want >= (2, 0)),
                    "presentation request behaviour does not match the floor version")
            # the same rule for the version a node presents
            s = w.new(Sensor, 1)
            w.set(s, "protocol_version", text)
            stored = w.get(s, "protocol_version")
            w.check(w.call(get_const, stored).__name__ == module_name(want),
                    "node version selects the wrong tables")
            w.goal(f"floor-{want[0]}.{want[1]}")
    return fn


def build(tier):
    P.contract()  # tabulated once here, inherited by every forked explorer
    grid = version_grid() + EXTRA
    hs = [
        Harness("constructor-matrix", constructor_matrix(),
                {"classes": sorted(classes()), "options": "every subset of the documented keyword "
                 "options; scalar values symbolic"}, goals=["constructed"],
                doc="cooperative __init__ chains interpreted; each option observable"),
        Harness("options-reach-device", options_reach_device(),
                {"gateways": ["SerialGateway", "TCPGateway"], "values": "symbolic baud / port / "
                 "timeout / reconnect_timeout", "attempts": 1},
                goals=["serial", "tcp"],
                doc="threaded connect loops hand the options to the device constructor"),
        Harness("version-selection", version_selection(grid),
                {"grid": "major 0..3 x minor 0..12 x patch absent/0..3", "extra": [str(x) for x in EXTRA]},
                goals=[f"floor-{a}.{b}" for a, b in SUPPORTED],
                doc="safe_is_version/get_const/is_sensor on the version grid vs numeric floor"),
    ]
    return {
        "harnesses": hs,
        "level_text": "symbolic execution of the real constructor chains for every subset of "
                      "documented options (scalar option values are solver terms) and exhaustive "
                      "exploration of the version grid through the real selection code",
        "assumptions": ["AwesomeVersion runs natively on the concrete grid strings (regex-driven, "
                        "not encodable); exact only on the grid"],
        "outside": ["version strings outside the grid", "connecting (serial_for_url, sockets)"],
        "stubs": ["time.time -> symbolic clock", "abstract FS"],
    }
