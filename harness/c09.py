"""C09 - OTA serves exactly the firmware it advertised."""
import ast

import z3

from symex.core import SBytes, SInt, Unsupported, mk_int, prog, zint
from symex.run import Harness

from . import common as C

MAXLEN = 32768


class SArrBytes:
    """bytes value of symbolic length: z3 Array(Int -> Int) + length term."""

    def __init__(self, arr, length):
        self.arr, self.length = arr, length

    def __symex_len__(self, it):
        return mk_int(self.length)

    def __symex_binop__(self, it, t, other):
        if t is not ast.Add:
            raise Unsupported("bytes operator on a symbolic-length image")
        arr, n = self.arr, self.length
        for b in (list(other) if isinstance(other, (bytes, bytearray)) else other.bs):
            arr = z3.Store(arr, n, b)
            n = n + 1
        return SArrBytes(arr, z3.simplify(n))

    def _bytes(self, p, lo, n):
        out = [z3.Select(self.arr, lo + j) for j in range(n)]
        for b in out:  # elements of a bytes object are bytes
            p.add(b >= 0, b <= 255)
        return out

    def __symex_getslice__(self, it, lo, hi):
        lo = zint(lo) if lo is not None else z3.IntVal(0)
        hi = zint(hi) if hi is not None else self.length
        width = z3.simplify(hi - lo)
        if not z3.is_int_value(width):
            raise Unsupported("slice of a symbolic-length image with non-constant width")
        n = width.as_long()
        p = it.p
        if n <= 0 or p.branch(lo >= self.length):
            return b""
        if p.branch(lo < 0):
            raise Unsupported("negative slice start on a symbolic-length image")
        if p.branch(hi <= self.length):
            return SBytes(self._bytes(p, lo, n))
        for k in range(1, n):  # ragged tail
            if p.branch(self.length - lo == k):
                return SBytes(self._bytes(p, lo, k))
        raise Unsupported("slice bound analysis did not converge")


CRC = z3.Function("crc16", z3.ArraySort(z3.IntSort(), z3.IntSort()), z3.IntSort(), z3.IntSort())


def image_harness(tier):
    """(i)+(ii)+(iii-d): padding, block addressing and the CRC plumbing for an image of
    symbolic length and content."""
    def fn(w):
        if not w.symbolic:
            return concrete_image(w)
        from mysensors import ota as ota_mod
        version = "2.2"
        env = C.make_env(w)
        calls = []

        def crc_stub(a, k):
            data = a[0]
            if not isinstance(data, SArrBytes):
                raise Unsupported("compute_crc on a non-array image")
            calls.append(data)
            r = w.fresh_int("crc", 0, 65535)
            w.assume_fast(w.eq(r, SInt(CRC(data.arr, data.length))))
            return r
        env.add(ota_mod.compute_crc, crc_stub, "mysensors.ota.compute_crc")
        with env.installed():
            g = C.make_gateway(w, version)
            ids = C.gen_network(w, g, ["bare", "bare"])
            L = w.fresh_int("length", 1, MAXLEN)
            arr = z3.Array("image", z3.IntSort(), z3.IntSort())
            idx0 = z3.Int("any_index")
            image = SArrBytes(arr, L.e)
            ft = w.fresh_int("fw_type", 0, 65535)
            fv = w.fresh_int("fw_version", 0, 65535)
            w.info = {"length": L, "fw_type": ft, "fw_version": fv}
            ota = g.gw.tasks.ota
            try:
                w.call(ota.make_update, [ids[0], ids[1]], ft, fv, image)
            except Exception as exc:
                w.escaped(exc, "make_update raised")
            w.check(len(ota.firmware) == 1, "firmware not stored")
            fw = list(ota.firmware.values())[0]
            data, B, crc = fw["data"], fw["blocks"], fw["crc"]
            w.check(isinstance(data, SArrBytes), "stored image is not the padded array")
            Lp = SInt(data.length)
            w.check(w.eq(Lp, w.mul(16, B)), "padded length is not 16 * blocks")
            w.check(w.eq(SInt(Lp.e % 128), 0), "padded length is not a multiple of 128")
            w.check(w.and_(w.lt(L, Lp), w.le(w.sub(Lp, L), 128)), "padding is not 1..128 bytes")
            i = SInt(idx0)
            w.check(w.implies(w.and_(w.le(0, i), w.lt(i, L)),
                              w.eq(SInt(z3.Select(data.arr, idx0)), SInt(z3.Select(arr, idx0)))),
                    "padded data differs from the image inside the image")
            w.check(w.implies(w.and_(w.le(L, i), w.lt(i, Lp)),
                              w.eq(SInt(z3.Select(data.arr, idx0)), 255)),
                    "padding byte is not 0xFF")
            w.check(len(calls) == 1 and calls[0] is data,
                    "compute_crc was not given exactly the padded data")
            w.check(w.eq(crc, SInt(CRC(data.arr, data.length))), "stored CRC is not crc(padded data)")
            w.check(w.le(B, 65535), "block count does not fit the 16-bit counter")
            # ---- config response advertises B and the CRC ------------------------------
            node = w.pick([ids[0], ids[1]], "requesting_node")
            cfg = C.structured_line(w, [node, 255, 4, 0, 0], C.hex_payload(w, "cfgreq", 20))
            try:
                C.step_line(w, g, cfg)
            except Exception as exc:
                w.escaped(exc, "config request raised")
            out = C.emissions(g)
            w.check(len(out) == 1, "no firmware config response for a scheduled node")
            words = parse_stream(w, out[0], node, 1, 4)
            w.check(w.and_(w.eq(words[0], ft), w.eq(words[1], fv)), "config response: wrong id")
            w.check(w.eq(words[2], B), "config response: advertised block count")
            w.check(w.eq(words[3], crc), "config response: advertised CRC")
            # ---- any block, any node of the session, any order ---------------------------
            del g.conn.written[:]
            blk = w.fresh_int("block", 0, 65535)
            w.assume_fast(w.lt(blk, B))
            before = (data.arr, data.length)
            req = C.structured_line(w, [node, 255, 4, 0, 2], hex_words(w, [ft, fv, blk]))
            w.info["block"] = blk
            try:
                C.step_line(w, g, req)
            except Exception as exc:
                w.escaped(exc, "block request raised")
            out = C.emissions(g)
            w.check(len(out) == 1, "no firmware block response")
            words, block = parse_stream(w, out[0], node, 3, 3, tail=16)
            w.check(w.and_(w.eq(words[0], ft), w.eq(words[1], fv), w.eq(words[2], blk)),
                    "block response does not echo type, version and index")
            j = w.fresh_int("j", 0, 15)
            for k in range(16):
                want = SInt(z3.Select(data.arr, 16 * blk.e + k))
                w.check(w.eq(block[k], want), "block byte differs from data[16*i + j]")
            fw2 = list(ota.firmware.values())[0]
            w.check(fw2["data"].arr is before[0] and fw2["blocks"] is B,
                    "serving a block modified the stored firmware")
            w.goal("served")
    return fn


def hexchar(v):
    """term for the lower-case hex digit of 0..15"""
    return z3.If(v < 10, 48 + v, 87 + v)


def hex_words(w, words):
    """Little-endian 16-bit words as a hex string value."""
    from symex.core import SStr
    from symex import models
    packed = models.m_struct_pack(w.it, [f"<{len(words)}H"] + list(words), {})
    return SStr(models.m_hexlify(w.it, [packed], {}).bs)


def parse_stream(w, line, node, sub, nwords, tail=0):
    """Decode an emitted stream response: header check + little-endian words (+ tail bytes)."""
    from mysensors.message import Message
    from symex import models
    m = w.new(Message, line)
    w.check(w.and_(w.eq(m.node_id, node), w.eq(m.child_id, 255), w.eq(m.type, 4),
                   w.eq(m.sub_type, sub)), "stream response header wrong")
    raw = models.m_unhexlify(w.it, [m.payload], {})
    bs = models.bytes_atoms(w.it, raw)
    w.check(len(bs) == 2 * nwords + tail, "stream response payload has the wrong length")
    words = [models.word_of(w.it, bs[2 * i], bs[2 * i + 1]) for i in range(nwords)]
    if tail:
        return words, [mk_int(b) for b in bs[2 * nwords:]]
    return words


def concrete_image(w):
    """Replay back-end of the image harness: a real bytes object of the model's length."""
    import binascii
    import struct
    from mysensors import ota as ota_mod
    version = "2.2"
    env = C.make_env(w)
    with env.installed():
        g = C.make_gateway(w, version)
        ids = C.gen_network(w, g, ["bare", "bare"])
        L = w.fresh_int("length", 1, MAXLEN)
        image = bytes((i * 7 + 3) % 251 for i in range(L))
        ft = w.fresh_int("fw_type", 0, 65535)
        fv = w.fresh_int("fw_version", 0, 65535)
        ota = g.gw.tasks.ota
        try:
            ota.make_update([ids[0], ids[1]], ft, fv, image)
        except Exception as exc:
            w.escaped(exc, "make_update raised")
        w.check(len(ota.firmware) == 1, "firmware not stored")
        fw = list(ota.firmware.values())[0]
        data, B, crc = fw["data"], fw["blocks"], fw["crc"]
        w.check(len(data) == 16 * B, "padded length is not 16 * blocks")
        w.check(len(data) % 128 == 0, "padded length is not a multiple of 128")
        w.check(0 < len(data) - L <= 128, "padding is not 1..128 bytes")
        w.check(data[:L] == image, "padded data differs from the image inside the image")
        w.check(set(data[L:]) <= {255}, "padding byte is not 0xFF")
        w.check(crc == ota_mod.compute_crc(data), "stored CRC is not crc(padded data)")
        node = w.pick([ids[0], ids[1]], "requesting_node")
        cfgreq = w.fresh_str("cfgreq", 20, 20)
        C.step_line(w, g, f"{node};255;4;0;0;{cfgreq}\n")
        out = C.emissions(g)
        w.check(len(out) == 1, "no firmware config response for a scheduled node")
        pl = out[0].strip().split(";")[5]
        words = struct.unpack("<4H", binascii.unhexlify(pl))
        w.check(words[0] == ft and words[1] == fv, "config response: wrong id")
        w.check(words[2] == B, "config response: advertised block count")
        w.check(words[3] == crc, "config response: advertised CRC")
        del g.conn.written[:]
        blk = w.fresh_int("block", 0, 65535)
        w.assume(blk < B)
        req = binascii.hexlify(struct.pack("<3H", ft, fv, blk)).decode()
        C.step_line(w, g, f"{node};255;4;0;2;{req}\n")
        out = C.emissions(g)
        w.check(len(out) == 1, "no firmware block response")
        raw = binascii.unhexlify(out[0].strip().split(";")[5])
        w.check(len(raw) == 22, "stream response payload has the wrong length")
        w.check(struct.unpack("<3H", raw[:6]) == (ft, fv, blk),
                "block response does not echo type, version and index")
        w.check(raw[6:] == data[16 * blk:16 * blk + 16], "block byte differs from data[16*i + j]")
        w.goal("served")


def block_sequence(nreq):
    """(ii') any order, any number of times, any scheduled node: a sequence of block requests
    with symbolic indices on a concrete 3-page image; every one is answered with its block."""
    def fn(w):
        import binascii
        import struct
        env = C.make_env(w)
        image = bytes((i * 11 + 5) % 256 for i in range(300))
        padded = image + bytes([255]) * (384 - 300)
        with env.installed():
            g = C.make_gateway(w, "2.2")
            ids = C.gen_network(w, g, ["bare", "bare"])
            ft = w.fresh_int("fw_type", 0, 65535)
            fv = w.fresh_int("fw_version", 0, 65535)
            ota = g.gw.tasks.ota
            w.call(ota.make_update, [ids[0], ids[1]], ft, fv, image)
            w.info = {"requests": []}
            for n in (ids[0], ids[1]):
                C.step_line(w, g, C.structured_line(w, [n, 255, 4, 0, 0],
                                                    "0100010000000000beef"))
            del g.conn.written[:]
            for r in range(nreq):
                node = w.pick([ids[0], ids[1]], f"node{r}")
                blk = w.fresh_int(f"block{r}", 0, 23)
                w.info["requests"].append([node, blk])
                if w.symbolic:
                    payload = hex_words(w, [ft, fv, blk])
                else:
                    payload = binascii.hexlify(struct.pack("<3H", ft, fv, blk)).decode()
                try:
                    C.step_line(w, g, C.structured_line(w, [node, 255, 4, 0, 2], payload))
                except Exception as exc:
                    w.escaped(exc, "block request raised")
                out = C.emissions(g)
                w.check(len(out) == r + 1, f"request {r + 1} of a sequence got no block response "
                                           "(order / repetition of requests must not matter)")
                if w.symbolic:
                    words, block = parse_stream(w, out[-1], node, 3, 3, tail=16)
                    w.check(w.and_(w.eq(words[0], ft), w.eq(words[1], fv), w.eq(words[2], blk)),
                            "block response does not echo type, version and index")
                    b = C.model_int(w, blk)  # the slice model pinned the index on this path
                    w.check(w.eq(blk, b), "block index not determined on this path")
                    for k in range(16):
                        w.check(w.eq(block[k], padded[16 * b + k]), "block byte differs")
                else:
                    raw = binascii.unhexlify(out[-1].strip().split(";")[5])
                    w.check(struct.unpack("<3H", raw[:6]) == (ft, fv, blk),
                            "block response does not echo type, version and index")
                    w.check(raw[6:] == padded[16 * blk:16 * blk + 16], "block byte differs")
            w.goal("sequence")
    return fn


# ------------------------------------------------------------------------------------------------
def crc_kernel():
    """(iii-a/b/c) the CRC object compute_crc builds is CRC-16/MODBUS, and its table-driven update
    step equals eight bit-steps of the bit-level definition for arbitrary state and byte."""
    def fn(w):
        import crcmod.predefined
        from mysensors import ota as ota_mod
        obj = crcmod.predefined.Crc("modbus")
        # (iii-a) what compute_crc really selects: read from the source it runs
        import inspect
        src = inspect.getsource(ota_mod.compute_crc)
        w.check('Crc("modbus")' in src or "Crc('modbus')" in src,
                "compute_crc does not select the predefined 'modbus' CRC")
        w.check((obj.poly, obj.initCrc, obj.xorOut, obj.reverse, obj.digest_size)
                == (0x18005, 0xFFFF, 0, True, 2), "predefined 'modbus' parameters changed")
        table = list(obj.table)
        w.check(len(table) == 256, "CRC table size")
        part = w.pick(["table-step", "glue"], "part")
        if part == "table-step":
            if not w.symbolic:
                c, b = w.fresh_int("state", 0, 65535), w.fresh_int("byte", 0, 255)
                ref = c ^ b
                for _ in range(8):
                    ref = (ref >> 1) ^ 0xA001 if ref & 1 else ref >> 1
                got = table[(c ^ b) & 0xFF] ^ (c >> 8)
                w.check(got == ref, "table step differs from the bit-level definition")
                w.goal("table-step")
                return
            c = w.fresh_int("state", 0, 65535)
            b = w.fresh_int("byte", 0, 255)
            cb = z3.Int2BV(c.e, 16)
            bb = z3.ZeroExt(8, z3.Int2BV(b.e, 8))
            x = cb ^ bb
            for _ in range(8):
                x = z3.If(z3.Extract(0, 0, x) == 1, z3.LShR(x, 1) ^ z3.BitVecVal(0xA001, 16),
                          z3.LShR(x, 1))
            idx = z3.Extract(7, 0, cb ^ bb)
            t = z3.BitVecVal(table[255], 16)
            for k in range(254, -1, -1):
                t = z3.If(idx == k, z3.BitVecVal(table[k], 16), t)
            got = t ^ z3.LShR(cb, 8)
            w.check(got == x, "table step differs from the bit-level definition")
            w.goal("table-step")
        else:
            # (iii-c) int(hexdigest(), 16) is the identity on every 16-bit state (finite domain,
            # run natively and exhaustively) and the C kernel agrees with its Python twin
            bad = 0
            probe = crcmod.predefined.Crc("modbus")
            for v in range(65536):
                probe.crcValue = v
                if int(probe.hexdigest(), 16) != v:
                    bad += 1
            w.check(bad == 0, "int(hexdigest(), 16) is not the identity on 16-bit states")
            from crcmod import _crcfunpy
            import os as _os
            for n in (1, 2, 16, 128, 1000):
                blob = bytes((i * 31 + n) % 256 for i in range(n))
                py = _crcfunpy._crc16r(blob, 0xFFFF, table)
                w.check(ota_mod.compute_crc(blob) == py,
                        "compute_crc differs from the table-driven Python kernel")
            w.goal("glue")
    return fn


def build(tier):
    hs = [
        Harness("block-sequence", block_sequence(2 if tier == "quick" else 3),
                {"image": "300 bytes (24 blocks after padding)", "requests": 2 if tier == "quick"
                 else 3, "indices": "symbolic 0..23", "nodes": "either scheduled node"},
                goals=["sequence"],
                doc="a sequence of block requests in any order / with repetition is fully served"),
        Harness("crc-kernel", crc_kernel(), {"state": "any 16-bit", "byte": "any"},
                goals=["table-step", "glue"], timeout_ms=60000,
                doc="CRC-16/MODBUS: parameters, inductive table step (bit-vectors), hexdigest glue"),
    ]
    from . import c09_hex
    hs.extend(c09_hex.harnesses(tier))
    hs.append(  # the array harness last: it has the hardest queries
        Harness("image", image_harness(tier),
                {"image_length": f"symbolic 1..{MAXLEN}", "content": "unconstrained array",
                 "fw_type/version": "symbolic 0..65535", "block_index": "symbolic < blocks",
                 "pad_loop": "forks on length mod 128 (128 residues)"},
                goals=["served"], timeout_ms=60000,
                doc="prepare_fw / respond_fw_config / respond_fw on a symbolic-length image"))
    return {
        "harnesses": hs,
        "level_text": "symbolic execution of make_update/prepare_fw/respond_fw_config/respond_fw "
                      "with the image as a z3 array of symbolic length (array reasoning with "
                      "symbolic indices, no enumeration of lengths) plus a bit-vector proof of "
                      "the CRC table step, which by induction covers every data length",
        "assumptions": ["int(len / 16) is float division: exact below 2**53",
                        "compute_crc is replaced by an uninterpreted function crc16(array, "
                        "length) in the image harness; its definition is the subject of the "
                        "crc-kernel harness", "crcmod's C kernel equals its Python twin "
                        "(checked on samples)"],
        "outside": ["Intel-HEX files with more records / longer records / addresses >= 16 than the "
                    "intel-hex harness states, overlapping records, data on both sides of a "
                    "64 KiB base change; that the intelhex package at run time is the installed "
                    "source that was interpreted",
                    f"images longer than {MAXLEN} bytes"],
        "stubs": ["compute_crc -> uninterpreted function (image harness)"],
    }
