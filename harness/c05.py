"""C05 - see DESIGN.md section 5; assertions selected from harness/stepref.py."""
from . import stepref
from . import c05_extra as extra


def build(tier):
    return stepref.build_for("C05", {"reply", "wellformed"}, tier,
                             "inductive one-step comparison of the ordered emissions of the real pump with the prescribed replies of the reference model; every emitted line is proved canonical, valid for the configured version (real validator and independent serial-API predicate) and addressed to the inbound node or broadcast", extra=extra.harnesses(tier), versions=extra.VERSIONS)
