"""C11 - persistence round trip is exact in both formats.

json / pickle themselves are C-accelerated library code; they are replaced by an abstract
serialiser that follows their documented data model and calls the repository's real hooks
(MySensorsJSONEncoder.default, MySensorsJSONDecoder.dict_to_object, __getstate__/__setstate__),
which are interpreted symbolically."""
from collections import deque

from symex.run import Harness

from . import common as C
from . import persist as P


to_json, from_json, pickled = P.to_json, P.from_json, P.pickled


def roundtrip(versions, shapes):
    def fn(w):
        from mysensors.persistence import MySensorsJSONDecoder, MySensorsJSONEncoder
        version = w.pick(versions, "version")
        shape = w.pick(shapes, "shape")
        env = C.make_env(w)
        with env.installed():
            g = C.make_gateway(w, version)
            C.VARLEN_VALUES = True  # reported values may be empty strings
            try:
                C.gen_network(w, g, shape)
            finally:
                C.VARLEN_VALUES = False
            sensors = g.gw.sensors
            w.info = {"version": version, "shape": shape}
            want = P.snapshot(sensors)
            enc = MySensorsJSONEncoder()
            dec = MySensorsJSONDecoder()
            try:
                tree = to_json(w, enc, sensors)
                via_json = from_json(w, dec, tree)
            except Exception as exc:
                w.escaped(exc, "json round trip raised")
            try:
                via_pickle = pickled(w, sensors)
            except Exception as exc:
                w.escaped(exc, "pickle round trip raised")
            from mysensors.sensor import ChildSensor, Sensor
            for name, got in (("json", via_json), ("pickle", via_pickle)):
                w.check(isinstance(got, dict), f"{name}: loaded object is not a dict")
                w.check(all(isinstance(s, Sensor) for s in got.values()),
                        f"{name}: a restored node is not a Sensor object")
                w.check(all(isinstance(c, ChildSensor) for s in got.values()
                            for c in s.__dict__["children"].values()),
                        f"{name}: a restored child is not a ChildSensor object")
                w.check(w.eq(P.snapshot(got), want), f"{name}: restored state differs")
                for s in got.values():
                    d = s.__dict__
                    w.check(len(d["new_state"]) == 0 and len(d["queue"]) == 0,
                            f"{name}: pending desired values / withheld replies resurrected by "
                            "a load")
                    w.check(w.eq(d["reboot"], False), f"{name}: reboot request resurrected by a load")
            w.check(w.eq(P.snapshot(via_json), P.snapshot(via_pickle)),
                    "json and pickle restore different states")
            # base case of the induction: a loaded state (and the empty gateway) satisfies Inv
            for name, got in (("json", via_json), ("pickle", via_pickle)):
                g2 = C.make_gateway(w, version)
                C.check_inv(w, g2)
                g2.gw.sensors.update(got)
                try:
                    C.check_inv(w, g2)
                except Exception as exc:
                    w.escaped(exc, f"{name}: Inv evaluation on the loaded state raised")
            w.goal("roundtrip")
    return fn


def build(tier):
    q = tier == "quick"
    shapes = [[], ["sleep", "awake"], ["bare", "awake1"]]
    if not q:
        shapes += [["sleep2", "awake", "bare"], ["sleep_old", "awake1"]]
    hs = [Harness("roundtrip", roundtrip(["1.4", "2.2"] if q else C.VERSIONS, shapes),
                  {"shapes": shapes, "ids": "symbolic 0..255 / 0..254", "strings": "symbolic "
                   "code points, reported values of length 0..1", "value_type_keys": "symbolic"},
                  goals=["roundtrip"],
                  doc="load(save(state)) == persisted projection, JSON == pickle, no transients")]
    return {
        "harnesses": hs,
        "level_text": "symbolic execution of the repository's real serialisation hooks "
                      "(JSON encoder default(), decoder object_hook, __getstate__/__setstate__, "
                      "property setters) inside an abstract serialiser following the documented "
                      "json/pickle data model, on states with symbolic ids, keys and text",
        "assumptions": ["json: dict keys become str(key), default() for unknown objects, "
                        "object_hook bottom-up; pickle: identity modulo __getstate__/__setstate__"],
        "outside": ["byte-level formats", "floats", "hand-edited files",
                    "states larger than the listed shapes"],
        "stubs": ["json/pickle -> abstract serialiser (harness/c11.py)"],
    }
