"""C11 - persistence round trip is exact in both formats.

json / pickle themselves are C-accelerated library code; they are replaced by an abstract
serialiser that follows their documented data model and calls the repository's real hooks
(MySensorsJSONEncoder.default, MySensorsJSONDecoder.dict_to_object, __getstate__/__setstate__),
which are interpreted symbolically."""
from collections import deque

from symex.run import Harness

from . import common as C
from . import persist as P


def to_json(w, enc, obj):
    """json.dump data model: dict keys become strings, unknown objects go through default()."""
    if obj is None or isinstance(obj, (bool,)):
        return obj
    if w.symbolic:
        from symex.core import SBool, SInt, SStr
        if isinstance(obj, (SInt, SStr, SBool)):
            return obj
    if isinstance(obj, (int, str)):
        return obj
    if isinstance(obj, dict):
        out = {}
        for k, v in obj.items():
            if isinstance(k, str) or (w.symbolic and type(k).__name__ == "SStr"):
                key = k
            elif k is None or isinstance(k, bool):
                raise TypeError("unsupported JSON key in the model")
            else:
                key = w.call(str, k)
            out[key] = to_json(w, enc, v)
        return out
    if isinstance(obj, (list, tuple, deque)):
        return [to_json(w, enc, x) for x in obj]
    return to_json(w, enc, w.call(enc.default, obj))


def from_json(w, dec, tree):
    """json.load data model: object_hook applied bottom-up to every decoded object."""
    if isinstance(tree, dict):
        inner = {}
        for k, v in tree.items():
            inner[k] = from_json(w, dec, v)
        return w.call(dec.dict_to_object, inner)
    if isinstance(tree, list):
        return [from_json(w, dec, x) for x in tree]
    return tree


def pickled(w, obj, memo=None):
    """pickle round trip: identity on the object graph modulo __getstate__/__setstate__."""
    from mysensors.sensor import ChildSensor, Sensor
    if isinstance(obj, dict):
        return {k: pickled(w, v) for k, v in obj.items()}
    if isinstance(obj, deque):
        return deque(pickled(w, x) for x in obj)
    if isinstance(obj, (list, tuple)):
        return type(obj)(pickled(w, x) for x in obj)
    if isinstance(obj, (Sensor, ChildSensor)):
        getstate = getattr(type(obj), "__getstate__", None)
        if "__getstate__" in type(obj).__dict__:
            state = w.call(obj.__getstate__)
        else:
            state = dict(obj.__dict__)
        state = pickled(w, state)
        new = type(obj).__new__(type(obj))
        w.call(new.__setstate__, state)
        return new
    return obj


def roundtrip(versions, shapes):
    def fn(w):
        from mysensors.persistence import MySensorsJSONDecoder, MySensorsJSONEncoder
        version = w.pick(versions, "version")
        shape = w.pick(shapes, "shape")
        env = C.make_env(w)
        with env.installed():
            g = C.make_gateway(w, version)
            C.VARLEN_VALUES = True  # reported values may be empty strings
            try:
                C.gen_network(w, g, shape)
            finally:
                C.VARLEN_VALUES = False
            sensors = g.gw.sensors
            w.info = {"version": version, "shape": shape}
            want = P.snapshot(sensors)
            enc = MySensorsJSONEncoder()
            dec = MySensorsJSONDecoder()
            try:
                tree = to_json(w, enc, sensors)
                via_json = from_json(w, dec, tree)
            except Exception as exc:
                w.escaped(exc, "json round trip raised")
            try:
                via_pickle = pickled(w, sensors)
            except Exception as exc:
                w.escaped(exc, "pickle round trip raised")
            for name, got in (("json", via_json), ("pickle", via_pickle)):
                w.check(isinstance(got, dict), f"{name}: loaded object is not a dict")
                w.check(w.eq(P.snapshot(got), want), f"{name}: restored state differs")
                for s in got.values():
                    d = s.__dict__
                    w.check(len(d["new_state"]) == 0 and len(d["queue"]) == 0,
                            f"{name}: pending desired values / withheld replies resurrected by "
                            "a load")
                    w.check(w.eq(d["reboot"], False), f"{name}: reboot request resurrected by a load")
            w.check(w.eq(P.snapshot(via_json), P.snapshot(via_pickle)),
                    "json and pickle restore different states")
            # base case of the induction: a loaded state (and the empty gateway) satisfies Inv
            for name, got in (("json", via_json), ("pickle", via_pickle)):
                g2 = C.make_gateway(w, version)
                C.check_inv(w, g2)
                g2.gw.sensors.update(got)
                try:
                    C.check_inv(w, g2)
                except Exception as exc:
                    w.escaped(exc, f"{name}: Inv evaluation on the loaded state raised")
            w.goal("roundtrip")
    return fn


def build(tier):
    q = tier == "quick"
    shapes = [[], ["sleep", "awake"], ["bare", "awake1"]]
    if not q:
        shapes += [["sleep2", "awake", "bare"], ["sleep_old", "awake1"]]
    hs = [Harness("roundtrip", roundtrip(["1.4", "2.2"] if q else C.VERSIONS, shapes),
                  {"shapes": shapes, "ids": "symbolic 0..255 / 0..254", "strings": "symbolic "
                   "code points, reported values of length 0..1", "value_type_keys": "symbolic"},
                  goals=["roundtrip"],
                  doc="load(save(state)) == persisted projection, JSON == pickle, no transients")]
    return {
        "harnesses": hs,
        "level_text": "symbolic execution of the repository's real serialisation hooks "
                      "(JSON encoder default(), decoder object_hook, __getstate__/__setstate__, "
                      "property setters) inside an abstract serialiser following the documented "
                      "json/pickle data model, on states with symbolic ids, keys and text",
        "assumptions": ["json: dict keys become str(key), default() for unknown objects, "
                        "object_hook bottom-up; pickle: identity modulo __getstate__/__setstate__"],
        "outside": ["byte-level formats", "floats", "hand-edited files",
                    "states larger than the listed shapes"],
        "stubs": ["json/pickle -> abstract serialiser (harness/c11.py)"],
    }
