"""Shared harness vocabulary (DESIGN §4): payload / line generators, canonical-line oracle,
gateway construction, state generator, step, projections."""
import re

import z3

from symex import strs
from symex.core import WS_RANGES, Infeasible, Render, SInt, SStr, in_ranges, lift_str

FIELDS = ["node_id", "child_id", "type", "ack", "sub_type", "payload"]
VERSIONS = ["1.4", "1.5", "2.0", "2.1", "2.2"]


def const_for(version):
    from mysensors.const import get_const
    return get_const(version)


def wire_payload(w, name, maxlen, minlen=0):
    """A payload the wire format can carry: no ';', no CR/LF, no trailing whitespace."""
    s = w.fresh_str(name, maxlen, minlen)
    if w.symbolic:
        for c in s.cs:
            w.p.add(z3.Not(c == 59), z3.Not(c == 10), z3.Not(c == 13))
        if s.cs:
            w.p.add(z3.Not(in_ranges(s.cs[-1], WS_RANGES)))
    else:
        w.assume(";" not in s and "\n" not in s and "\r" not in s and s == s.rstrip())
    return s


def concat(w, parts):
    if not w.symbolic:
        return "".join(str(x) if isinstance(x, int) else x for x in parts)
    return w.text(*parts)


def check_canonical(w, line, what):
    """`line` is one canonical command: five decimal integers, the payload (no ';', no trailing
    whitespace), exactly one trailing newline."""
    if not w.symbolic or isinstance(line, str):
        m = re.fullmatch(r"(?:-?(?:0|[1-9][0-9]*);){5}([^;\n]*)\n", line)
        ok = m is not None and m.group(1) == m.group(1).rstrip()
        w.check(bool(ok), f"{what} is not canonical", {"line": line})
        return
    cs = list(lift_str(line).cs)
    w.check(len(cs) >= 11 and cs[-1] == 10, f"{what} is not canonical")
    body = cs[:-1]
    pos = 0
    for i in range(5):
        if pos < len(body) and isinstance(body[pos], Render):
            pos += 1  # canonical by construction: the rendering of an integer
        else:
            start = pos
            while pos < len(body) and isinstance(body[pos], int) and body[pos] != 59:
                pos += 1
            text = "".join(chr(c) for c in body[start:pos])
            if pos < len(body) and not isinstance(body[pos], int):
                w.cut(f"{what}: integer field with symbolic characters (shape check n/a)")
            w.check(re.fullmatch(r"-?(0|[1-9][0-9]*)", text) is not None and text != "-0",
                    f"{what} is not canonical")
        w.check(pos < len(body) and body[pos] == 59, f"{what} is not canonical")
        pos += 1
    payload = body[pos:]
    for c in payload:
        if isinstance(c, Render):
            continue
        w.check(w.and_(w.ne(SInt(c), 59), w.ne(SInt(c), 10)) if not isinstance(c, int)
                else c not in (59, 10),
                f"{what} is not canonical")
    if payload and not isinstance(payload[-1], Render):
        last = payload[-1]
        ws = in_ranges(last, WS_RANGES)
        w.check(w.not_(ws) if not isinstance(ws, bool) else not ws,
                f"{what} is not canonical")


# ================================================================================================
# Fakes (run natively in both modes; they only store what they are given)
class FakeConn:
    """Serial / socket connection object behind protocol.transport."""

    __symex_native__ = True

    def __init__(self, name="conn"):
        self.name = name
        self.written = []
        self.closed = False
        self.fail_write = False
        self.serial = self
        self.events = []

    def write(self, data):
        flag = getattr(self, "fail_flag", None)
        if self.fail_write or (flag is not None and self.w.is_true(flag)):
            from symex.core import prog
            raise prog(OSError("write failed"))
        if self.closed:
            from symex.core import prog
            raise prog(OSError("write on a closed connection"))  # like serial / socket objects
        self.written.append((data, self.closed))

    def close(self):
        self.closed = True
        self.events.append("close")

    def __repr__(self):
        return f"<FakeConn {self.name}>"


class UserCallbackError(Exception):
    """What a user-supplied callback raises: an application-defined exception class, i.e. not
    one of the built-in families a handler might enumerate."""


class EventLog:
    """Event callback: records the message fields and the state it sees; may raise."""

    __symex_native__ = True

    def __init__(self, raises=False, w=None):
        self.calls = []
        self.raises = raises  # bool, or a symbolic flag decided lazily through w
        self.gw = None
        self.w = w

    def __call__(self, msg):
        d = msg.__dict__
        self.calls.append((tuple(d[f] for f in FIELDS), snap_gateway(self.gw) if self.gw else None))
        if self.w.is_true(self.raises) if self.w is not None else self.raises:
            from symex.core import prog
            raise prog(UserCallbackError("event callback failed"))


class PubSubLog:
    __symex_native__ = True

    def __init__(self, raises=False, w=None):
        self.published = []
        self.subscribed = []
        self.raises = raises  # bool, or a symbolic flag decided lazily through w
        self.w = w

    def _raises(self):
        return self.w.is_true(self.raises) if self.w is not None else bool(self.raises)

    def pub(self, topic, payload, qos, retain):
        self.published.append((topic, payload, qos, retain))
        if self._raises():
            from symex.core import prog
            raise prog(UserCallbackError("publish failed"))

    def sub(self, topic, callback, qos):
        self.subscribed.append((topic, callback, qos))
        if self._raises():
            from symex.core import prog
            raise prog(UserCallbackError("subscribe failed"))


def _noconnect(transport):
    return None


_noconnect.__symex_native__ = True


# ================================================================================================
# Projections
def snap_child(c):
    d = c.__dict__
    return (d["id"], d["type"], d.get("description"), tuple(d["values"].items()))


def snap_sensor(s):
    d = s.__dict__
    return (
        d["sensor_id"], d["type"], d["sketch_name"], d["sketch_version"], d["_battery_level"],
        d["_protocol_version"], d["_heartbeat"], d["reboot"],
        tuple((k, snap_child(c)) for k, c in d["children"].items()),
        tuple((k, snap_child(c)) for k, c in d["new_state"].items()),
        tuple(d["queue"]),
    )


def snap_persisted(s):
    """The part of a node a save/load cycle preserves."""
    d = s.__dict__
    return (d["sensor_id"], d["type"], d["sketch_name"], d["sketch_version"], d["_battery_level"],
            d["_protocol_version"], d["_heartbeat"],
            tuple((k, snap_child(c)) for k, c in d["children"].items()))


def snap_ota(ota):
    return (tuple(ota.firmware.items()), tuple(ota.requested.items()),
            tuple(ota.unstarted.items()), tuple(ota.started.items()))


def snap_gateway(gw):
    return (tuple((k, snap_sensor(s)) for k, s in gw.sensors.items()), snap_ota(gw.tasks.ota),
            gw.can_log, gw.metric)


# ================================================================================================
# Gateway under test
class GW:
    """Bundle: the real gateway object plus the fakes around it."""

    def __init__(self):
        self.gw = None
        self.conn = None
        self.events = None
        self.pubsub = None
        self.flavour = None
        self.transport_kind = None
        self.version = None


def make_gateway(w, version, flavour="sync", transport="serial", cb_raises=False,
                 persistence=False, persistence_file="mysensors.pickle", in_prefix="",
                 out_prefix="", pubsub_raises=False, connected=True, callback="registered"):
    import mysensors
    from mysensors import gateway_mqtt
    from mysensors.transport import AsyncTransport, SyncTransport
    g = GW()
    g.flavour, g.transport_kind, g.version = flavour, transport, version
    g.events = EventLog(cb_raises, w)
    cb = g.events if callback == "registered" else None
    if transport == "serial":
        cls = mysensors.BaseSyncGateway if flavour == "sync" else mysensors.BaseAsyncGateway
        gw = cls.__new__(cls)
        tr = w.new(SyncTransport if flavour == "sync" else AsyncTransport, gw, _noconnect)
        w.call(cls.__init__, gw, tr, event_callback=cb, protocol_version=version,
               persistence=persistence, persistence_file=persistence_file)
        g.conn = FakeConn()
        if connected:
            tr.protocol.transport = g.conn
    elif transport == "mqtt":
        cls = gateway_mqtt.MQTTGateway if flavour == "sync" else gateway_mqtt.AsyncMQTTGateway
        g.pubsub = PubSubLog(pubsub_raises, w)
        gw = w.new(cls, g.pubsub.pub, g.pubsub.sub, in_prefix=in_prefix, out_prefix=out_prefix,
                   event_callback=cb, protocol_version=version, persistence=persistence,
                   persistence_file=persistence_file)
    else:
        raise ValueError(transport)
    g.gw = gw
    g.events.gw = gw
    return g


def emissions(g):
    """Ordered command strings that reached the wire."""
    if g.transport_kind == "serial":
        out = []
        for data, closed in g.conn.written:
            out.append(_decode_written(data))
        return out
    return [("mqtt", t, p, q, r) for (t, p, q, r) in g.pubsub.published]


def _decode_written(data):
    from symex.core import SBytes
    if isinstance(data, SBytes):
        if data.src is not None:
            return data.src
        return SStr(data.bs)
    return data.decode()


def drain(w, g):
    """What the poll thread does with the queue (threaded flavour); asyncio jobs ran inline."""
    tasks = g.gw.tasks
    n = 0
    while len(tasks.queue) > 0:
        n += 1
        if n > 64:
            w.fail("job queue does not drain (more than 64 jobs from one step)")
        reply = w.call(tasks.run_job)
        w.call(tasks.transport.send, reply)


def step_line(w, g, line):
    """One inbound line: queued like handle_line does, then the queue is drained."""
    w.call(g.gw.tasks.add_job, g.gw.logic, line)
    drain(w, g)


def structured_line(w, ints, payload, terminator="\n"):
    parts = []
    for x in ints:
        parts.append(x)
        parts.append(";")
    parts.append(payload)
    parts.append(terminator)
    return concat(w, parts)


def str_rule_types(version):
    """Value types of `version` whose payload rule is 'any text' (from the current tables)."""
    const = const_for(version)
    return sorted(int(t) for t, rule in const.VALID_SETREQ.items() if rule is str)


def presentation_types(version):
    return sorted(int(t) for t in const_for(version).Presentation)


def one_of(w, x, values):
    if not w.symbolic:
        return x in values
    if isinstance(x, int):
        return x in values
    return z3.Or([x.e == int(v) for v in values])


def distinct(w, xs):
    for i in range(len(xs)):
        for j in range(i + 1, len(xs)):
            w.assume_fast(w.ne(xs[i], xs[j]))


# ================================================================================================
# State generator (DESIGN §4 / Appendix B)
#
# Flags that do not change the *structure* of the state (reboot pending, callback raises) are
# symbolic booleans, so they fork lazily - only on paths that actually read them.
def sym_flag(w, name):
    return w.fresh_bool(name)


VARLEN_VALUES = False  # set by harnesses that can afford the extra length fork per value


def gen_child(w, tag, cid, version, nvalues, ctype=None, special=()):
    from mysensors.sensor import ChildSensor
    child = ChildSensor.__new__(ChildSensor)
    child.id = cid
    if ctype is None:
        ctype = w.fresh_int(f"{tag}.type")
        w.assume_fast(one_of(w, ctype, presentation_types(version)))
    child.type = ctype
    child.description = wire_payload(w, f"{tag}.desc", 1, 1)
    child.values = {}
    keys = []
    for k, v in special:  # concrete entries whose rule is not 'any text'
        child.values[k] = v
        keys.append(k)
    ok_types = str_rule_types(version)
    for i in range(nvalues):
        k = w.fresh_int(f"{tag}.vt{i}")
        w.assume_fast(one_of(w, k, ok_types))
        for kk in keys:
            w.assume_fast(w.ne(k, kk))
        keys.append(k)
        child.values[k] = wire_payload(w, f"{tag}.val{i}", 1, 0 if VARLEN_VALUES else 1)
    return child


def gen_node(w, tag, nid, version, shape):
    """shape: dict(children=[dict(values=int, covered=bool)], sleeping=bool, queue=int,
    node_version=str|None, attrs=bool).  A covered child of a sleeping node gets the desired map
    {vt0: pending, vt1: None, other: pending} over its reported value types vt0, vt1."""
    from collections import deque
    from mysensors.sensor import ChildSensor, Sensor
    s = Sensor.__new__(Sensor)
    d = s.__dict__
    d["sensor_id"] = nid
    d["children"] = {}
    if shape.get("attrs", True):
        d["type"] = w.fresh_int(f"{tag}.type")
        w.assume_fast(one_of(w, d["type"], presentation_types(version)))
        d["sketch_name"] = wire_payload(w, f"{tag}.sketch", 1, 1)
        d["sketch_version"] = None
        d["_battery_level"] = w.fresh_int(f"{tag}.battery", 0, 100)
        # a heartbeat is only ever recorded by the 2.x heartbeat-response handler
        d["_heartbeat"] = w.fresh_int(f"{tag}.heartbeat") if sleeping_possible(version) else 0
    else:
        d["type"] = None
        d["sketch_name"] = None
        d["sketch_version"] = None
        d["_battery_level"] = 0
        d["_heartbeat"] = 0
    d["_protocol_version"] = shape.get("node_version") or version
    d["new_state"] = {}
    d["queue"] = deque()
    d["reboot"] = sym_flag(w, f"{tag}.reboot") if shape.get("reboot", True) else False
    sleeping = shape.get("sleeping") and sleeping_possible(version)
    cids = []
    ok_types = str_rule_types(version)
    for i, cs in enumerate(shape.get("children", [])):
        cid = w.fresh_int(f"{tag}.c{i}.id", 0, 254)
        for other in cids:
            w.assume_fast(w.ne(cid, other))
        cids.append(cid)
        special = cs.get("special", {}).get(version, ())
        child = gen_child(w, f"{tag}.c{i}", cid, version, cs.get("values", 0), special=special)
        d["children"][cid] = child
        if sleeping and cs.get("covered", True):
            ns = ChildSensor.__new__(ChildSensor)
            ns.id, ns.type, ns.description, ns.values = cid, child.type, child.description, {}
            keys = [k for k in child.values.keys() if not any(k is sk for sk, _ in special)]
            for sk, _ in special:
                ns.values[sk] = None
            if keys:
                ns.values[keys[0]] = wire_payload(w, f"{tag}.c{i}.des0", 1, 1)
            if len(keys) > 1:
                ns.values[keys[1]] = None
            if len(keys) > 2:
                # a second value type waiting to be flushed: the wake-up burst has several sets
                ns.values[keys[2]] = wire_payload(w, f"{tag}.c{i}.des1", 1, 1)
            if cs.get("extra_desired", True):
                k = w.fresh_int(f"{tag}.c{i}.dt")
                w.assume_fast(one_of(w, k, ok_types))
                for kk in keys:
                    w.assume_fast(w.ne(k, kk))
                ns.values[k] = wire_payload(w, f"{tag}.c{i}.des2", 1, 1)
            d["new_state"][cid] = ns
    for q in range(shape.get("queue", 0) if sleeping else 0):
        # a withheld command addressed to this node, as the gateway parks them: the reply to a
        # value request (a set with a free-text value type) first, then a reboot request
        if q == 0:
            c_ = w.fresh_int(f"{tag}.q{q}.child", 0, 254)
            st = w.fresh_int(f"{tag}.q{q}.sub")
            w.assume_fast(one_of(w, st, ok_types))
            pl = wire_payload(w, f"{tag}.q{q}.payload", 1, 1)
            d["queue"].append(structured_line(w, [nid, c_, 1, 0, st], pl))
        else:
            d["queue"].append(structured_line(w, [nid, 255, 3, 0, 13], ""))
    return s


SHAPES = {
    "bare": dict(children=[], attrs=False, reboot=False),
    "awake": dict(children=[dict(values=2), dict(values=0)]),
    "awake1": dict(children=[dict(values=1)]),
    # sleeping node: child 0 covered by the desired state, child 1 presented after the wake-up
    "sleep": dict(sleeping=True, queue=1,
                  children=[dict(values=3, covered=True), dict(values=1, covered=False)]),
    # a sleeping node that presented a library version between the table versions
    "sleep_v21": dict(sleeping=True, queue=1, node_version="2.1.0",
                      children=[dict(values=2, covered=True), dict(values=1, covered=False)]),
    "sleep2": dict(sleeping=True, queue=2,
                   children=[dict(values=2, covered=True), dict(values=1, covered=True)]),
    # node that presented an older protocol version than the gateway is configured for
    # (value type 22 is a 0/1 switch in 1.4 and an HVAC speed word from 1.5 on: the node has
    # reported a speed word, which is valid for the gateway)
    "sleep_old": dict(sleeping=True, queue=0, node_version="1.4",
                      children=[dict(values=1, covered=True, extra_desired=False,
                                     special={v: ((22, "Auto"),) for v in ("2.0", "2.1", "2.2")})]),
}


def gen_network(w, g, shapes, tags=None):
    """Install nodes with pairwise distinct symbolic ids; returns the list of ids."""
    ids = []
    for i, name in enumerate(shapes):
        tag = (tags or [f"n{j}" for j in range(len(shapes))])[i]
        nid = w.fresh_int(f"{tag}.id", 0, 255)
        for other in ids:
            w.assume_fast(w.ne(nid, other))
        ids.append(nid)
        shape = SHAPES[name] if isinstance(name, str) else name
        g.gw.sensors[nid] = gen_node(w, tag, nid, g.version, shape)
    return ids


# ================================================================================================
def make_env(w):
    from symex.env import Env
    return Env(w)


def sleeping_possible(version):
    return version in ("2.0", "2.1", "2.2")


def shape_has_sleep(shape):
    return any((SHAPES[s] if isinstance(s, str) else s).get("sleeping") for s in shape)


def gen_ota(w, g, ids, mode="fixed"):
    """OTA stores: one image (symbolic type/version, concrete data built by the real
    prepare_fw).  mode 'fixed': the *last* node is scheduled (requested), the others are not;
    otherwise the first node is in the named session state ('none' = no session at all)."""
    from mysensors.ota import prepare_fw
    if not ids or mode == "none":
        return None
    ota = g.gw.tasks.ota
    ft = w.fresh_int("fw.type", 0, 65535)
    fv = w.fresh_int("fw.version", 0, 65535)
    ota.firmware[(ft, fv)] = prepare_fw(bytes(range(1, 101)))
    if mode == "fixed":
        ota.requested[ids[-1]] = (ft, fv)
    else:
        getattr(ota, mode)[ids[0]] = (ft, fv)
    return (ft, fv)


HEX_LENGTHS = [0, 1, 2, 11, 12, 13, 19, 20, 21]


def hexish_payload(w, name, lengths=None):
    lengths = lengths or HEX_LENGTHS
    n = w.pick(lengths, f"len({name})")
    s = w.fresh_str(name, n, n)
    if w.symbolic:
        for c in s.cs:
            w.p.add(z3.Not(c == 59), z3.Not(c == 10), z3.Not(c == 13))
        if s.cs:
            w.p.add(z3.Not(in_ranges(s.cs[-1], WS_RANGES)))
    else:
        w.assume(";" not in s and "\n" not in s and "\r" not in s and s == s.rstrip())
    return s


def hex_payload(w, name, n):
    """n symbolic hex digits."""
    s = w.fresh_str(name, n, n)
    if w.symbolic:
        for ch in s.cs:
            w.p.add(z3.Or(z3.And(ch >= 48, ch <= 57), z3.And(ch >= 65, ch <= 70),
                          z3.And(ch >= 97, ch <= 102)))
    else:
        w.assume(all(ch in "0123456789abcdefABCDEF" for ch in s))
    return s


def classify(w, version, line):
    """What the real decoder / validator say about a line: malformed | invalid | accepted.
    Any other exception is a validator-totality violation."""
    import voluptuous as vol
    from mysensors.message import Message
    try:
        msg = w.new(Message, line)
    except ValueError:
        return "malformed"
    except Exception as exc:
        w.escaped(exc, "decode raised")
    try:
        w.call(msg.validate, version)
    except vol.Invalid:
        return "invalid"
    except Exception as exc:
        w.escaped(exc, "validate raised")
    return "accepted"


def model_int(w, x):
    if not w.symbolic:
        return int(x)
    from symex.core import concretize
    return concretize(x, w.p.current_model())


def kind_tag(w, version, ints):
    """Name of the message kind under the path's current model (used in labels only)."""
    const = const_for(version)
    t = model_int(w, ints[2])
    s = model_int(w, ints[4])
    try:
        mt = const.MessageType(t)
    except ValueError:
        return f"type{t}"
    enum_ = {"presentation": const.Presentation, "set": const.SetReq, "req": const.SetReq,
             "internal": const.Internal, "stream": const.Stream}[mt.name]
    if mt.name in ("internal", "stream"):
        try:
            return f"{mt.name}/{enum_(s).name}"
        except ValueError:
            return f"{mt.name}/{s}"
    return mt.name


def check_no_effect(w, g, before, what):
    w.check(w.eq(snap_gateway(g.gw), before), f"{what} changed gateway state")
    w.check(len(emissions(g)) == 0, f"{what} produced a reply / emission")
    w.check(len(g.events.calls) == 0, f"{what} invoked the event callback")
    w.check(len(g.gw.tasks.queue) == 0, f"{what} left a queued job")
    if g.pubsub is not None:
        w.check(len(g.pubsub.subscribed) == 0, f"{what} subscribed to a topic")


def check_inv(w, g):
    """Structural clauses of Inv on the post-state (DESIGN Appendix B: B1, B3/B4 structure, B5,
    B6, B7) - what makes the one-step results compose into every history."""
    def member(x, keys):
        keys = list(keys)
        return w.or_(*[w.eq(x, k) for k in keys]) if keys else False
    sensors = g.gw.sensors
    for k, s in sensors.items():
        d = s.__dict__
        w.check(w.eq(d["sensor_id"], k), "Inv B1: sensor_id differs from its key")
        for ck, child in d["children"].items():
            w.check(w.eq(child.id, ck), "Inv B3: child id differs from its key")
        for ck, ns in d["new_state"].items():
            w.check(member(ck, d["children"].keys()),
                    "Inv B4: desired state for a child that is not presented")
            w.check(w.eq(ns.id, ck), "Inv B4: desired-state child id differs from its key")
        if len(d["queue"]) > 0:
            w.check(len(d["new_state"]) > 0, "Inv B5: commands parked for a node that is awake")
        for line in d["queue"]:
            w.check(queue_line_addressed_to(w, line, k),
                    "Inv B5: withheld line not addressed to its own node")
    ota = g.gw.tasks.ota
    stores = [ota.requested, ota.unstarted, ota.started]
    for i, store in enumerate(stores):
        for nid, fw_id in store.items():
            w.check(member(nid, sensors.keys()), "Inv B6: firmware session of an unknown node")
            w.check(member(fw_id, ota.firmware.keys()),
                    "Inv B6: firmware session refers to a firmware that is not stored")
            for other in stores[i + 1:]:
                w.check(w.not_(member(nid, other.keys())),
                        "Inv B6: node in two firmware session stores at once")
    w.check(len(g.gw.tasks.queue) == 0, "Inv B7: job queue not drained")


def queue_line_addressed_to(w, line, nid):
    if not w.symbolic or isinstance(line, str):
        return str(line).split(";")[0] == str(int(nid))
    cs = lift_str(line).cs
    if cs and isinstance(cs[0], Render) and len(cs) > 1 and cs[1] == 59:
        return w.eq(SInt(cs[0].n), nid)
    head = strs.s_split(w.p, lift_str(line), ";")[0]
    return w.eq(strs.py_int_of_str(w.p, head), nid)


def wakeup_line(w, version, nid):
    sub = 32 if version == "2.2" else 22
    return structured_line(w, [nid, 255, 3, 0, sub], "0")


def wake_all(w, g, version, ids):
    if not sleeping_possible(version):
        return
    for nid in ids:
        step_line(w, g, wakeup_line(w, version, nid))


class Recorder:
    """Stand-in callable that records its first argument (native in both modes)."""

    __symex_native__ = True

    def __init__(self, sink):
        self.sink = sink

    def __call__(self, data):
        self.sink.append(data)
        return None


class Recorder0:
    """Callable without arguments that records its invocation."""

    __symex_native__ = True

    def __init__(self, sink):
        self.sink = sink

    def __call__(self):
        self.sink.append(1)


class Recorder2:
    __symex_native__ = True

    def __init__(self, sink):
        self.sink = sink

    def __call__(self, *args):
        self.sink.append(args)


class AsyncRecorder:
    """Awaitable-returning stand-in for a connect coroutine function."""

    __symex_native__ = True

    def __init__(self, sink):
        self.sink = sink

    def __call__(self, *args):
        from symex.env import Done
        self.sink.append(args)
        return Done(None)


def concrete_int(w, x, values):
    """A symbolic integer known to be one of `values`, made concrete by forking."""
    if isinstance(x, int):
        return x
    for v in values:
        if w.is_true(w.eq(x, v)):
            return int(v)
    raise Infeasible()


def as_int(x):
    """A byte / code-point atom as an engine value."""
    if isinstance(x, int):
        return x
    if type(x).__name__ in ("SInt",):
        return x
    return SInt(x)


def line_fields(w, line):
    """Syntactic split of a structured line (five integer fields that are lazy renderings or
    concrete decimals, then the payload, then LF): ([int values], payload) or None."""
    if not w.symbolic or isinstance(line, str):
        m = re.fullmatch(r"(-?[0-9]+);(-?[0-9]+);(-?[0-9]+);(-?[0-9]+);(-?[0-9]+);([^;\n]*)\n",
                         line)
        if m is None:
            return None
        return [int(m.group(i)) for i in range(1, 6)], m.group(6)
    cs = list(lift_str(line).cs)
    if not cs or cs[-1] != 10:
        return None
    body, pos, ints = cs[:-1], 0, []
    for _ in range(5):
        if pos < len(body) and isinstance(body[pos], Render):
            ints.append(SInt(body[pos].n) if not isinstance(body[pos].n, int) else body[pos].n)
            pos += 1
        else:
            start = pos
            while pos < len(body) and isinstance(body[pos], int) and body[pos] != 59:
                pos += 1
            text = "".join(chr(c) for c in body[start:pos])
            if re.fullmatch(r"-?[0-9]+", text) is None:
                return None
            ints.append(int(text))
        if pos >= len(body) or body[pos] != 59:
            return None
        pos += 1
    return ints, SStr(body[pos:])


def line_eq(w, a, b):
    """Equality of two emitted lines, field by field when both are structured."""
    fa, fb = line_fields(w, a), line_fields(w, b)
    if fa is None or fb is None:
        return w.eq(a, b)
    return w.and_(*[w.eq(x, y) for x, y in zip(fa[0], fb[0])], w.eq(fa[1], fb[1]))


class Factory:
    """protocol_factory for reader threads."""

    __symex_native__ = True
    __symex_opaque__ = True

    def __init__(self, proto):
        self.proto = proto

    def __call__(self):
        return self.proto


def hex_of_words(w, words):
    """Lower-case hex rendering of little-endian 16-bit words (value / engine string)."""
    import binascii
    import struct
    if not w.symbolic:
        return binascii.hexlify(struct.pack(f"<{len(words)}H", *words)).decode()
    from symex import models
    packed = models.m_struct_pack(w.it, [f"<{len(words)}H"] + list(words), {})
    if packed is models.MISSING:
        return binascii.hexlify(struct.pack(f"<{len(words)}H", *words)).decode()
    return SStr(models.m_hexlify(w.it, [packed], {}).bs)
