"""Shared harness vocabulary (DESIGN §4): payload / line generators, canonical-line oracle,
gateway construction, state generator, step, projections."""
import re

import z3

from symex import strs
from symex.core import WS_RANGES, Render, SInt, SStr, in_ranges, lift_str

FIELDS = ["node_id", "child_id", "type", "ack", "sub_type", "payload"]
VERSIONS = ["1.4", "1.5", "2.0", "2.1", "2.2"]


def const_for(version):
    from mysensors.const import get_const
    return get_const(version)


def wire_payload(w, name, maxlen, minlen=0):
    """A payload the wire format can carry: no ';', no CR/LF, no trailing whitespace."""
    s = w.fresh_str(name, maxlen, minlen)
    if w.symbolic:
        for c in s.cs:
            w.p.add(c != 59, c != 10, c != 13)
        if s.cs:
            w.p.add(z3.Not(in_ranges(s.cs[-1], WS_RANGES)))
    else:
        w.assume(";" not in s and "\n" not in s and "\r" not in s and s == s.rstrip())
    return s


def concat(w, parts):
    if not w.symbolic:
        return "".join(str(x) if isinstance(x, int) else x for x in parts)
    return w.text(*parts)


def check_canonical(w, line, what):
    """`line` is one canonical command: five decimal integers, the payload (no ';', no trailing
    whitespace), exactly one trailing newline."""
    if not w.symbolic or isinstance(line, str):
        m = re.fullmatch(r"(?:-?(?:0|[1-9][0-9]*);){5}([^;\n]*)\n", line)
        ok = m is not None and m.group(1) == m.group(1).rstrip()
        w.check(bool(ok), f"{what} is not canonical", {"line": line})
        return
    cs = list(lift_str(line).cs)
    w.check(len(cs) >= 11 and cs[-1] == 10, f"{what}: does not end with exactly one newline")
    body = cs[:-1]
    ok_shape = True
    pos = 0
    for i in range(5):
        if pos < len(body) and isinstance(body[pos], Render) and pos + 1 < len(body) \
                and body[pos + 1] == 59:
            pos += 2
        else:
            ok_shape = False
            break
    if not ok_shape:
        # fall back to explicit characters
        s = strs.expand(w.p, SStr(body))
        body = list(s.cs)
        w.cut(f"{what}: integer fields are not lazy renderings (shape check not applicable)")
    payload = body[pos:]
    for c in payload:
        if isinstance(c, Render):
            continue
        w.check(w.and_(w.ne(SInt(c), 59), w.ne(SInt(c), 10)) if not isinstance(c, int)
                else c not in (59, 10),
                f"{what}: payload contains ';' or a line feed")
    if payload and not isinstance(payload[-1], Render):
        last = payload[-1]
        ws = in_ranges(last, WS_RANGES)
        w.check(w.not_(ws) if not isinstance(ws, bool) else not ws,
                f"{what}: payload has trailing whitespace")
