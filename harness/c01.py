"""C01 - the message pump cannot be crashed or tricked by input."""
import z3

from symex.run import Harness

from . import common as C


def decode_totality(F, maxsep, wide_upto=None):
    """(A) Message(line) returns or raises ValueError - nothing else - for every raw line."""
    def fn(w):
        from mysensors.message import Message
        nsep = w.choose(maxsep + 1, "separators")
        fields = []
        for i in range(nsep + 1):
            f_ = w.fresh_str(f"f{i}", F if wide_upto is None or nsep <= wide_upto else 1)
            if w.symbolic:
                for c in f_.cs:
                    w.p.add(z3.Not(c == 59))
            fields.append(f_)
        term = w.pick(["\n", "", "\r\n"], "terminator")
        parts = []
        for i, f_ in enumerate(fields):
            if i:
                parts.append(";")
            parts.append(f_)
        parts.append(term)
        line = C.concat(w, parts)
        w.info = {"line": line}
        try:
            w.new(Message, line)
            w.goal("accepted")
        except ValueError:
            w.goal("rejected")
        except Exception as exc:
            w.escaped(exc, "decode raised")
    return fn


def raw_step(F, maxsep, versions):
    """(C/D) arbitrary text through the whole pump on a populated gateway: never raises; a line
    the decoder rejects has no effect."""
    def fn(w):
        from mysensors.message import Message
        version = w.pick(versions, "version")
        env = C.make_env(w)
        with env.installed():
            g = C.make_gateway(w, version, "sync", "serial")
            C.gen_network(w, g, ["awake1"])
            nsep = w.choose(maxsep + 1, "separators")
            fields = []
            for i in range(nsep + 1):
                f_ = w.fresh_str(f"f{i}", F)
                if w.symbolic:
                    for c in f_.cs:
                        w.p.add(z3.Not(c == 59))
                fields.append(f_)
            parts = []
            for i, f_ in enumerate(fields):
                if i:
                    parts.append(";")
                parts.append(f_)
            parts.append("\n")
            line = C.concat(w, parts)
            w.info = {"version": version, "line": line}
            before = C.snap_gateway(g.gw)
            try:
                w.new(Message, line)
                decodes = True
            except ValueError:
                decodes = False
            except Exception as exc:
                w.escaped(exc, "decode raised")
            if decodes:
                w.goal("decoded")  # decodable lines are the structured harness's business
                return
            try:
                C.step_line(w, g, line)
            except Exception as exc:
                w.escaped(exc, "pump raised on raw line")
            w.goal("malformed-ignored")
            C.check_no_effect(w, g, before, "malformed line")
    return fn


def step(versions, shapes, P, combos, hexshapes=False, ota_modes=("fixed",), only_type=None):
    """(B/C/D) structured line (unbounded header ints, symbolic payload) on an arbitrary state
    in Inv: the step never raises; if decode/validate rejects the line it has no effect.

    The line is classified first (real decoder + validator); the state-shape / flavour choices
    are made afterwards, so rejected lines - whose processing never reads the state - are not
    multiplied by them (they are checked against the richest shape)."""
    def fn(w):
        version = w.pick(versions, "version")
        env = C.make_env(w)
        with env.installed():
            ints = [w.fresh_int(n) for n in C.FIELDS[:5]]
            if only_type is not None:
                w.assume_fast(w.eq(ints[2], only_type))
            if hexshapes:
                payload = C.hexish_payload(w, "payload")
            else:
                payload = C.wire_payload(w, "payload", P)
            line = C.structured_line(w, ints, payload)
            w.info = {"version": version, "line": line}
            verdict = C.classify(w, version, line)
            if verdict == "accepted" and not hexshapes:
                # "not valid for the configured protocol version" is the serial API's notion,
                # not whatever the validator currently lets through (version payloads of node
                # presentations are C03's grid and are not re-decided here)
                from verifspec import serial_api as S
                node, child, cmd, ack, sub = ints
                is_version_cell = w.and_(w.eq(cmd, 0), w.or_(w.eq(sub, 17), w.eq(sub, 18)))
                if not w.is_true(is_version_cell):
                    spec = w.is_true(w.call(S.accepts, version, node, child, cmd, ack, sub,
                                            payload, None))
                    w.check(spec, "a line that is not valid for the configured protocol version "
                                  f"was processed[{C.kind_tag(w, version, ints)}]")
            if verdict == "accepted":
                flavour, transport = w.pick(combos, "flavour/transport")
                shape = w.pick(shapes, "shape")
                ota = w.pick(list(ota_modes), "ota")
            else:
                flavour, transport = combos[0]
                shape = shapes[-1]
                ota = ota_modes[0]
            cb_raises = C.sym_flag(w, "callback_raises")
            g = C.make_gateway(w, version, flavour, transport, cb_raises=cb_raises)
            ids = C.gen_network(w, g, shape)
            C.gen_ota(w, g, ids, ota)
            w.info.update({"flavour": flavour, "transport": transport, "shape": shape,
                           "ota": ota})
            before = C.snap_gateway(g.gw)
            try:
                C.step_line(w, g, line)
            except Exception as exc:
                w.escaped(exc, f"pump raised[{C.kind_tag(w, version, ints)}]")
            if verdict != "accepted":
                w.goal("rejected-no-effect")
                C.check_no_effect(w, g, before, f"{verdict} line")
            else:
                w.goal("accepted")
                w.goal(f"accepted-type-{C.kind_tag(w, version, ints).split('/')[0]}")
            try:
                C.check_inv(w, g)
            except Exception as exc:
                w.escaped(exc, "Inv evaluation raised")
    return fn


def controller(versions, shapes, P, combos):
    """(C) controller calls as steps: set_child_value with arbitrary value-type spellings and
    arbitrary text: the call raises to its caller or returns; afterwards the pump must be able to
    drain and every later wake-up flush must be able to run."""
    def fn(w):
        version = w.pick(versions, "version")
        flavour, transport = w.pick(combos, "flavour/transport")
        shape = w.pick(shapes, "shape")
        env = C.make_env(w)
        with env.installed():
            g = C.make_gateway(w, version, flavour, transport)
            ids = C.gen_network(w, g, shape)
            node = w.fresh_int("arg.node")
            child = w.fresh_int("arg.child")
            vt_kind = w.pick(["int", "numeric-str", "text"], "value_type_kind")
            vt_int = w.fresh_int("arg.value_type")
            if vt_kind == "int":
                vt = vt_int
            elif vt_kind == "numeric-str":
                vt = C.concat(w, [vt_int])
            else:
                vt = w.fresh_str("arg.value_type_text", 1, 1)
            value = w.fresh_str("arg.value", P)
            w.info = {"version": version, "flavour": flavour, "transport": transport,
                      "shape": shape, "call": ["set_child_value", node, child, vt, value]}
            try:
                w.call(g.gw.set_child_value, node, child, vt, value)
                returned = True
            except Exception:
                returned = False  # refused to the caller: allowed
                w.goal("refused")
            try:
                C.drain(w, g)
            except Exception as exc:
                w.escaped(exc, "pump raised after set_child_value")
            if returned:
                w.goal("returned")
                # whatever it left behind must not blow up at the node's next wake-up
                try:
                    C.wake_all(w, g, version, ids)
                except Exception as exc:
                    w.escaped(exc, "wake-up flush raised after set_child_value")
    return fn


def update_fw_step(versions, combos):
    """(C) update_fw with arbitrary integers as a step, then firmware requests from the node:
    nothing the call left behind may raise in the pump."""
    def fn(w):
        version = w.pick(versions, "version")
        flavour, transport = w.pick(combos, "flavour/transport")
        env = C.make_env(w)
        env.add_load_fw(bytes(range(7, 107)))
        with env.installed():
            g = C.make_gateway(w, version, flavour, transport)
            ids = C.gen_network(w, g, ["awake1"])
            nid = w.fresh_int("arg.node")
            ft = w.fresh_int("arg.fw_type")
            fv = w.fresh_int("arg.fw_ver")
            w.info = {"version": version, "flavour": flavour, "transport": transport,
                      "call": ["update_fw", nid, ft, fv, "fw.hex"]}
            try:
                r = w.call(g.gw.update_fw, nid, ft, fv, fw_path="fw.hex")
                if flavour == "async":
                    w.run_coro(r)
                w.goal("returned")
            except Exception:
                w.goal("refused")
            try:
                C.drain(w, g)
                for sub, n in ((0, 5), (2, 3)):
                    # any well-formed request: the hex rendering of n arbitrary 16-bit words
                    payload = C.hex_of_words(w, [w.fresh_int(f"req{sub}.w{i}", 0, 65535)
                                                 for i in range(n)])
                    line = C.structured_line(w, [ids[0], 255, 4, 0, sub], payload)
                    w.info[f"line{sub}"] = line
                    C.step_line(w, g, line)
            except Exception as exc:
                w.escaped(exc, "pump raised after update_fw")
    return fn


def tcp_step(versions):
    """(C) the TCP gateway's own handler table (I_VERSION resets the watchdog): internal
    messages through TCPGateway.logic never raise, rejected ones have no effect."""
    def fn(w):
        from mysensors import gateway_tcp
        version = w.pick(versions, "version")
        flavour = w.pick(["sync", "async"], "flavour")
        env = C.make_env(w)
        with env.installed():
            ints = [w.fresh_int(n) for n in C.FIELDS[:5]]
            w.assume_fast(w.eq(ints[2], 3))
            payload = C.wire_payload(w, "payload", 1)
            line = C.structured_line(w, ints, payload)
            w.info = {"version": version, "flavour": flavour, "line": line}
            verdict = C.classify(w, version, line)
            cls = gateway_tcp.TCPGateway if flavour == "sync" else gateway_tcp.AsyncTCPGateway
            g = C.GW()
            g.flavour, g.transport_kind, g.version = flavour, "serial", version
            g.events = C.EventLog(C.sym_flag(w, "callback_raises"), w)
            g.gw = w.new(cls, "127.0.0.1", event_callback=g.events, protocol_version=version)
            g.events.gw = g.gw
            g.conn = C.FakeConn()
            g.gw.tasks.transport.protocol.transport = g.conn
            C.gen_network(w, g, ["awake1"])
            before = (C.snap_gateway(g.gw), g.gw.tcp_check_timer)
            t_disc = g.gw.tcp_disconnect_timer
            try:
                C.step_line(w, g, line)
            except Exception as exc:
                w.escaped(exc, f"TCP gateway pump raised[{C.kind_tag(w, version, ints)}]")
            if verdict != "accepted":
                C.check_no_effect(w, g, before[0], f"{verdict} line")
                w.check(w.eq(g.gw.tcp_disconnect_timer, t_disc),
                        f"{verdict} line reset the TCP watchdog")
                w.goal("rejected-no-effect")
            else:
                w.goal("accepted")
                is_version = w.is_true(w.eq(ints[4], 2))
                if is_version:
                    w.goal("version-answer")
                    w.check(w.le(t_disc, g.gw.tcp_disconnect_timer),
                            "version answer moved the watchdog timer backwards")
                else:
                    w.check(w.eq(g.gw.tcp_disconnect_timer, t_disc),
                            "a message other than a version answer reset the TCP watchdog")
    return fn


def build(tier):
    q = tier == "quick"
    versions = C.VERSIONS
    combos = [("sync", "serial"), ("async", "serial"), ("sync", "mqtt")]
    if not q:
        combos = combos + [("async", "mqtt")]
    shapes_q = [[], ["sleep", "awake"]]
    shapes_t = [[], ["awake", "sleep"], ["sleep_old", "bare"], ["sleep2", "awake1"],
                ["sleep", "awake"]]
    shapes = shapes_q if q else shapes_t
    P = 1 if q else 2
    hs = [
        Harness("A-decode-totality", decode_totality(1 if q else 2, 7, None if q else 4),
                {"separators": "0..7", "field_code_points_max": 1 if q else "2 up to 4 separators, "
                 "1 beyond (C02 H2b covers 5 separators with 2)"},
                goals=["accepted", "rejected"], doc="Message(line): returns or ValueError"),
        Harness("CD-raw-step", raw_step(1, 6, ["1.4", "2.2"] if q else versions),
                {"separators": "0..6", "field_code_points_max": 1, "state": "awake1"},
                goals=["malformed-ignored", "decoded"],
                doc="arbitrary text through logic(): no raise; malformed => no effect"),
        Harness("BCD-step", step(versions, shapes, P, combos),
                {"payload_atoms_max": P, "header_ints": "unbounded", "shapes": shapes,
                 "flavour_transport": combos},
                goals=["accepted", "rejected-no-effect"] +
                      [f"accepted-type-{t}" for t in ("presentation", "set", "req", "internal",
                                                      "stream")],
                doc="one step from an arbitrary state in Inv; structured line"),
        Harness("C-stream-hex", step(["1.4", "2.2"] if q else versions,
                                     [["awake1"]] if q else [["awake1"], ["sleep"]], 0,
                                     [("sync", "serial")], hexshapes=True,
                                     ota_modes=("requested", "unstarted", "started", "none"),
                                     only_type=4),
                {"payload": "hex-shaped, lengths 0..22, per-atom hex / non-hex"},
                goals=["accepted", "rejected-no-effect"],
                doc="stream frames (command 4) with hex-shaped payloads"),
        Harness("C-controller", controller(versions if not q else ["1.4", "2.0", "2.2"],
                                           [["awake1"], ["sleep"], ["sleep_old"]], P + 1, combos),
                {"value_atoms_max": P + 1, "value_type": "int | numeric str | 1-char text"},
                goals=["returned", "refused"], doc="set_child_value as a step, then drain + wake-up"),
        Harness("C-tcp-internal", tcp_step(["1.4", "2.2"] if q else versions),
                {"gateway": "TCPGateway / AsyncTCPGateway", "command": "internal (3)",
                 "payload_atoms_max": 1},
                goals=["accepted", "rejected-no-effect", "version-answer"],
                doc="internal messages through the TCP gateways' handler table"),
        Harness("C-update-fw", update_fw_step(["1.4", "2.2"] if q else versions, combos),
                {"fw_type/fw_ver": "unbounded ints", "image": "100 bytes via stubbed load_fw",
                 "requests": "config (5 symbolic words) then block (3 symbolic words), hex-encoded"},
                goals=["returned"], doc="update_fw as a step, then config + block requests"),
    ]
    return {
        "harnesses": hs,
        "level_text": "inductive one-step symbolic execution of Gateway.logic + job drain + "
                      "transport.send from arbitrary pre-states in Inv (symbolic ids, values, "
                      "queues, OTA stores) with unbounded header integers and symbolic payloads",
        "assumptions": ["pre-states satisfy Inv (DESIGN Appendix B); shapes bounded as listed",
                        "user event callback raises only Exception subclasses"],
        "outside": ["non-str input to logic()", "payloads longer than the bound",
                    "states larger than the listed shapes", "BaseException from callbacks"],
        "stubs": ["logging/humanize_error -> no-op", "time.localtime/calendar.timegm -> "
                  "uninterpreted", "connection object -> recording fake",
                  "MQTT pub/sub callbacks -> recording fakes"],
        "budget_s": 3000 if q else 14400,
    }
