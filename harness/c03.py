"""C03 - inbound validation conforms to the per-version serial API."""
import z3

from symex.run import Harness

from . import common as C

# plain dotted decimals and unmistakable non-versions only: whether "v2.0" or "2.0-beta" are
# "versions" is the version library's business, not fixed by the property (see DESIGN, Corrections)
VERSION_GRID = ["1.4", "1.5", "2.0", "2.1", "2.2", "2.3", "1.3", "0.9", "1.10", "2.0.0", "1.4.1",
                "1.3.9", "3.0", "2", "1", "", "abc", "one.two"]


def version_ok(text):
    """Reference: dotted decimal version, numerically >= 1.4 (missing sections count as 0)."""
    if not isinstance(text, str):
        raise TypeError("version_ok needs a concrete string")
    parts = text.split(".")
    if not parts or not all(p.isascii() and p.isdigit() for p in parts):
        return False
    nums = [int(p) for p in parts] + [0, 0]
    return (nums[0], nums[1]) >= (1, 4)


version_ok.__symex_native__ = True


def numeric_cells(version):
    from verifspec import serial_api as S
    cells = []
    for cmd in (1, 3):
        for sub in range(S.MAX_SUB[version][cmd] + 1):
            kind = S.rule_for(version, cmd, sub)[0]
            if kind in ("PCT", "INT", "TIME", "ID", "CONFIG", "FLOAT", "BIN"):
                cells.append((cmd, sub))
    return cells


def one_of_ints(w, x, values):
    return w.or_(*[w.eq(x, v) for v in values])


def equivalence(versions, P, N):
    def fn(w):
        import voluptuous as vol
        from mysensors.message import Message
        from verifspec import serial_api as S
        version = w.pick(versions, "version")
        kind = w.pick(["short", "numeric", "rgb", "rgbw", "gps", "version", "words"], "payload_kind")
        ints = [w.fresh_int(n) for n in C.FIELDS[:5]]
        node, child, cmd, ack, sub = ints
        is_version_cell = w.and_(w.eq(cmd, 0), w.or_(w.eq(sub, 17), w.eq(sub, 18)))
        if kind == "short":
            payload = C.wire_payload(w, "payload", P)
            w.assume_fast(w.not_(is_version_cell))
        elif kind == "numeric":
            payload = C.wire_payload(w, "payload", N, P + 1)
            cells = numeric_cells(version)
            if w.symbolic:
                w.assume_fast(z3.Or([z3.And(cmd.e == c, sub.e == s) for c, s in cells]))
            else:
                w.assume((cmd, sub) in cells)
        elif kind == "rgb":
            payload = C.wire_payload(w, "payload", 7, 5)
            w.assume_fast(w.and_(w.eq(cmd, 1), w.eq(sub, 40)))
        elif kind == "rgbw":
            payload = C.wire_payload(w, "payload", 9, 7)
            w.assume_fast(w.and_(w.eq(cmd, 1), w.eq(sub, 41)))
        elif kind == "gps":
            ncomma = w.pick([1, 2, 3], "commas")
            parts = []
            for i in range(ncomma + 1):
                if i:
                    parts.append(",")
                parts.append(w.fresh_str(f"gps{i}", 2, 0))
            payload = C.concat(w, parts)
            if w.symbolic and not isinstance(payload, str):
                for c in payload.cs:
                    if not isinstance(c, int):
                        w.p.add(z3.Not(c == 59), z3.Not(c == 10), z3.Not(c == 13))
            w.assume_fast(w.and_(w.eq(cmd, 1), w.eq(sub, 49)))
        elif kind == "words":
            payload = w.pick(["Off", "HeatOn", "CoolOn", "AutoChangeOver", "Min", "Normal", "Max",
                              "Auto", "off", "Off ", "M", "I", "m", "0", "1", "2", "01", ""],
                             "word")
            w.assume_fast(w.not_(is_version_cell))
        else:
            payload = w.pick(VERSION_GRID, "version_payload")
            w.assume_fast(is_version_cell)
        if kind != "short":
            # payload-rule kinds: the header is pinned to a valid one (header rules are decided
            # independently of the payload and are covered by the "short" kind)
            w.assume_fast(w.and_(w.eq(node, 1), w.eq(ack, 0)))
            w.assume_fast(w.or_(w.and_(one_of_ints(w, cmd, (0, 3, 4)), w.eq(child, 255)),
                                w.and_(one_of_ints(w, cmd, (1, 2)), w.eq(child, 0))))
        w.info = {"version": version, "kind": kind, "fields": ints, "payload": payload}
        msg = w.new(Message, node_id=node, child_id=child, type=cmd, ack=ack, sub_type=sub,
                    payload=payload)
        try:
            w.call(msg.validate, version)
            accepted = True
        except vol.Invalid:
            accepted = False
        except Exception as exc:
            w.escaped(exc, "validate raised")
        spec = w.call(S.accepts, version, node, child, cmd, ack, sub, payload, version_ok)
        spec = w.is_true(spec)
        tag = C.kind_tag(w, version, ints)
        if accepted:
            w.goal("accepted")
            w.check(spec, f"accepted by the gateway but not by the serial API [{tag}]")
        else:
            w.goal("rejected")
            w.check(not spec, f"rejected by the gateway but valid per the serial API [{tag}]")
    return fn


def table_facts():
    """Finite facts about the per-version tables (plain scans of the real tables)."""
    def fn(w):
        order = C.VERSIONS
        i = w.choose(len(order), "version")
        version = order[i]
        const = C.const_for(version)
        w.info = {"version": version}
        groups = {"presentation": const.Presentation, "set": const.SetReq,
                  "internal": const.Internal, "stream": const.Stream}
        for mt, members in const.VALID_MESSAGE_TYPES.items():
            rules = const.VALID_PAYLOADS[mt]
            for m in members:
                w.check(m in rules or int(m) in [int(k) for k in rules],
                        f"sub-type without a payload rule: {version} {mt.name} {m.name}")
        defined = {int(m) for m in const.SetReq}
        for ptype, vts in const.VALID_TYPES.items():
            for vt in vts:
                w.check(int(vt) in defined and vt in const.VALID_SETREQ,
                        f"child schema of {ptype.name} references a value type that is not defined "
                        f"in {version}: {getattr(vt, 'name', vt)}")
        w.check({int(p) for p in const.VALID_TYPES} == {int(p) for p in const.Presentation},
                f"{version}: presentation types and child-schema table differ")
        if i > 0:
            prev = C.const_for(order[i - 1])
            for name, enum_ in groups.items():
                old = {int(m) for m in getattr(prev, enum_.__name__)}
                new = {int(m) for m in enum_}
                w.check(old <= new, f"sub-type set shrank from {order[i - 1]} to {version}: {name}")
        w.goal("tables")
    return fn


def child_schema(versions, P):
    """Every presentation type's child-value schema: total, and it accepts {value type: payload}
    exactly when that value type is listed for the presentation type (or for S_CUSTOM) in this
    version's table and the payload satisfies the serial API's rule for that value type.  The
    schemas of all *other* versions are built first in the same process (a controller can run
    gateways of several versions): the answer for this version must not depend on that."""
    def fn(w):
        import voluptuous as vol
        from mysensors.sensor import ChildSensor
        from verifspec import serial_api as S
        version = w.pick(versions, "version")
        const = C.const_for(version)
        t = w.pick(sorted(int(m) for m in const.Presentation), "presentation_type")
        for other in versions:
            if other == version:
                continue
            oc = C.const_for(other)
            for t2 in {t, int(oc.Presentation.S_CUSTOM)}:
                if t2 in [int(m) for m in oc.Presentation]:
                    try:
                        w.call(w.new(ChildSensor, 0, t2, "").validate, other, {})
                    except Exception as exc:
                        w.escaped(exc, f"child schema of version {other} raised")
        listed = sorted({int(x) for x in const.VALID_TYPES[const.Presentation(t)]} |
                        {int(x) for x in const.VALID_TYPES[const.Presentation.S_CUSTOM]})
        vt = w.fresh_int("value_type")
        kind = w.pick(["short", "numeric"], "payload_kind")
        if kind == "short":
            payload = w.fresh_str("payload", P)
        else:
            payload = w.fresh_str("payload", P + 2, P + 1, alphabet=[(43, 57)])
        w.info = {"version": version, "presentation_type": t, "value_type": vt, "payload": payload}
        child = w.new(ChildSensor, 0, t, "")
        try:
            w.call(child.validate, version, {vt: payload})
            got = True
        except vol.Invalid:
            got = False
        except Exception as exc:
            w.escaped(exc, "child schema validation raised")
        if not w.is_true(C.one_of(w, vt, listed) if w.symbolic else vt in listed):
            w.check(not got, "child schema accepted a value type that is not listed for the "
                             "presentation type in this version")
            w.goal("invalid")
            return
        vt_c = C.concrete_int(w, vt, listed)
        rule = S.set_rule(version, vt_c)
        want = w.truth(w.call(S.payload_ok, rule, payload, None))
        w.check(got == want, "child schema and the serial API disagree on a listed value type"
                             f" [{'accepted by the API, rejected by the schema' if want else 'rejected by the API, accepted by the schema'}]")
        w.goal("valid" if got else "invalid")
    return fn


def build(tier):
    q = tier == "quick"
    P = 1 if q else 2
    N = 3 if q else 5
    hs = [
        Harness("equivalence", equivalence(C.VERSIONS, P, N),
                {"header_ints": "unbounded", "payload_short_max": P, "payload_numeric_len":
                 f"{P + 1}..{N}", "rgb_len": "5..7", "rgbw_len": "7..9",
                 "gps": "2..4 parts of <= 2 code points", "version_payloads": VERSION_GRID},
                goals=["accepted", "rejected"], timeout_ms=30000,
                doc="real Message.validate accepts <=> serial-API reference accepts"),
        Harness("table-facts", table_facts(), {"versions": C.VERSIONS}, goals=["tables"],
                doc="sub-type sets grow with the version; every sub-type has a payload rule"),
        Harness("child-schema", child_schema(C.VERSIONS, 1 if q else 2),
                {"value_type": "unbounded int", "payload": f"any text <= {1 if q else 2} code points, "
                 f"or {2 if q else 3}..{3 if q else 4} characters of [+,-./0-9]",
                 "primed_with": "the schemas of the other four versions, built first"},
                goals=["valid", "invalid"], timeout_ms=30000,
                doc="ChildSensor schema: total; accepts <=> type listed in this version's table "
                    "and payload satisfies the serial-API rule; independent of other versions"),
    ]
    return {
        "harnesses": hs,
        "level_text": "symbolic execution of Message.validate (real tables, voluptuous leaf "
                      "validators interpreted) against an independent serial-API reference "
                      "predicate executed by the same interpreter; equivalence decided per path",
        "assumptions": ["int()/float() models shared by implementation and reference",
                        "node-presentation version payloads restricted to the listed grid "
                        "(AwesomeVersion is not encodable)"],
        "outside": ["payloads longer than the stated shapes", "version payloads outside the grid"],
        "stubs": ["logging -> no-op", "AwesomeVersion native on concrete strings"],
        "budget_s": 2400 if q else 10800,
    }
