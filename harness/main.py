"""Dispatcher: ./check <property-id> [--tier quick|thorough] [--replay file]."""
import argparse
import importlib
import os
import sys

import logging

REPO = os.environ.get("VERIF_REPO", "/repo")  # the registered commands use /repo itself
sys.path.insert(0, REPO)
logging.disable(logging.CRITICAL)
sys.setrecursionlimit(20000)


def main():
    ap = argparse.ArgumentParser()
    ap.add_argument("prop")
    ap.add_argument("--tier", default=None)
    ap.add_argument("--replay", default=None)
    ap.add_argument("--only", default=None, help="comma-separated harness names (debugging)")
    a = ap.parse_args()
    if a.tier:
        os.environ["VERIF_TIER"] = a.tier
    tier = os.environ.get("VERIF_TIER", "quick")
    if tier not in ("quick", "thorough"):
        tier = "quick"
    from symex.env import preload
    preload()  # every protocol-version module is loaded, as in a process with several gateways
    mod = importlib.import_module(f"harness.{a.prop.lower()}")
    from symex import run
    spec = mod.build(tier)
    if a.only:
        spec["harnesses"] = [h for h in spec["harnesses"] if h.name in a.only.split(",")]
    if a.replay:
        sys.exit(run.replay_file(spec["harnesses"], a.replay))
    sys.exit(run.run_check(a.prop.upper(), spec["harnesses"], tier=tier,
                           level_text=spec.get("level_text", ""),
                           assumptions=spec.get("assumptions", ()),
                           outside=spec.get("outside", ()), stubs=spec.get("stubs", ()),
                           budget_s=spec.get("budget_s"),
                           write_evidence=a.prop.upper() != "SELFTEST"))


if __name__ == "__main__":
    main()
