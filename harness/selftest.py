"""Translator validation and model conformance (DESIGN §3.6): the AST interpreter in all-concrete
mode must agree with native CPython on the repository's own fixture frames and on a scripted
conversation, and the int()/float()/hex models must agree with the real functions on boundary
samples.  A disagreement is reported as a violation label that cannot reproduce natively, i.e. it
surfaces as HARNESS-ERROR (exit 3): the engine is wrong, not the repository."""
import glob
import re

from symex.run import Harness

from . import common as C

SCRIPT = [
    "1;255;0;0;17;2.0", "1;0;0;0;6;temp", "1;1;0;0;3;light", "1;0;1;0;0;20.5", "1;1;1;0;2;1",
    "1;0;2;0;0;", "1;1;2;1;2;", "1;255;3;0;0;87", "1;255;3;0;11;sketch", "1;255;3;0;12;1.0",
    "1;255;3;0;6;0", "255;255;3;0;3;", "255;255;3;0;3;", "9;255;3;0;22;100", "1;255;3;0;22;100",
    "1;255;3;0;32;500", "1;0;1;0;0;21", "1;5;2;0;0;", "7;3;1;0;0;1", "1;255;3;0;14;ready",
    "1;255;4;0;0;0100010000000000beef", "1;255;4;0;2;010001000000", "1;255;4;0;2;zz",
    "1;255;3;0;21;0", "1;0;1;0;23;120", "1;0;1;0;3;101", "x;y", "", "1;2;3", "1;0;1;2;0;1",
    "300;0;1;0;0;1", "1;255;1;0;0;1", "1;0;0;0;0;again", "1;255;3;0;9;log",
]


def fixture_frames():
    frames = set()
    import os
    repo = os.environ.get("VERIF_REPO", "/repo")
    for fn in glob.glob(repo + "/tests/*.py"):
        with open(fn) as fh:
            for m in re.finditer(r"\"(-?[0-9]+;-?[0-9]+;-?[0-9]+;-?[0-9]+;-?[0-9]+;[^\"{}]*)\"",
                                 fh.read()):
                frames.add(m.group(1).replace("\\n", "\n"))
    return sorted(frames)


def native_gateway(version, flavour="sync"):
    import mysensors
    from mysensors.transport import SyncTransport
    cls = mysensors.BaseSyncGateway
    gw = cls.__new__(cls)
    tr = SyncTransport(gw, C._noconnect)
    cls.__init__(gw, tr, protocol_version=version)
    conn = C.FakeConn()
    tr.protocol.transport = conn
    return gw, conn


def plain(x):
    """Normalise engine values that are concrete to plain Python values."""
    from symex.core import SBytes, SStr, lower_bytes, lower_str
    if isinstance(x, SStr):
        return lower_str(x)
    if isinstance(x, SBytes):
        if x.src is not None:
            return plain(x.src).encode()
        return lower_bytes(x)
    if isinstance(x, tuple):
        return tuple(plain(y) for y in x)
    if isinstance(x, list):
        return [plain(y) for y in x]
    return x


def translator():
    def fn(w):
        if not w.symbolic:
            return
        version = w.pick(C.VERSIONS, "version")
        frames = SCRIPT + fixture_frames()
        env = C.make_env(w)
        with env.installed():
            gw_n, conn_n = native_gateway(version)
            g = C.make_gateway(w, version)
            gw_n.tasks.ota.make_update  # touch
            w.info = {"version": version, "frames": len(frames)}
            for i, frame in enumerate(frames):
                if re.match(r"^-?[0-9]+;-?[0-9]+;3;[01];1;", frame):
                    continue  # time request: the reply depends on the wall clock
                want_exc = got_exc = None
                try:
                    gw_n.tasks.add_job(gw_n.logic, frame)
                    while gw_n.tasks.queue:
                        gw_n.tasks.transport.send(gw_n.tasks.run_job())
                except Exception as exc:  # noqa: BLE001
                    want_exc = type(exc).__name__
                try:
                    C.step_line(w, g, frame)
                except Exception as exc:  # noqa: BLE001
                    got_exc = type(exc).__name__
                w.check(want_exc == got_exc,
                        f"translator validation: exception differs on frame {frame!r}: native "
                        f"{want_exc}, interpreter {got_exc}")
                want = [d for d, closed in conn_n.written]
                got = [plain(d) for d, closed in g.conn.written]
                w.check(want == got, f"translator validation: emissions differ after frame "
                                     f"{frame!r}: native {want[-2:]}, interpreter {got[-2:]}")
                w.check(plain(C.snap_gateway(g.gw)) == C.snap_gateway(gw_n),
                        f"translator validation: state differs after frame {frame!r}")
            w.goal("validated")
    return fn


INT_SAMPLES = ["0", "7", "-7", "+7", " 7", "7 ", "\t7\n", "1_0", "1__0", "_1", "1_", "٣", "٣٤",
               "१२", "", " ", "+", "-", "1 2", "1e2", "0x1", "１２", "\x1c7", "7\x1f", " 7",
               "7　", "00", "-0", "007", "1.0", "9" * 30]
FLOAT_SAMPLES = INT_SAMPLES + ["1.5", ".5", "5.", ".", "1e5", "1E5", "1e+5", "1e-5", "1e", "e5",
                               "1.e5", ".e5", "1_0.5", "1._5", "1.5_5", "1e1_0", "1e_1", "inf",
                               "-inf", "+Infinity", "infinit", "nan", "-NaN", "nAn", "100", "100.0",
                               "100.01", "1e2", "1.00001e2", "-0.0", "-1e-999", "1e-999", "1e999",
                               "-1e999", "1e-330", "2e-324", "3e-324", "1.7e308", "1.8e308", "99.99",
                               "0.999", "-1", "-1.0", "1.0", "1.0001", "-1.0001", "٣.٥", "1 .5"]
HEXINT_SAMPLES = ["", "0", "ff", "FF", "0x", "0X1f", "0x_ff", "0x__ff", "_ff", "ff_", "f_f", "f__f",
                  "+ff", "-ff", "- ff", " ff ", "\tff\n", "0xg", "g", "0_x1", "00", "0x0", "-0x10",
                  "٠x1f", "٣f", "1٣", "x1", "0xff ", " 0xff", "0 xff", "ff00ff", "0xff00", "+ff00f",
                  "ff_00f", "1e5", "0b1", "0o7", "１f", "\x1cff", "ff\x1f", "ff　"]
HEX_SAMPLES = ["", "00", "ff", "FF", "0g", "abc", "a b ", "٣٣", "zz", "01020304", "AbCd"]


def conformance():
    def fn(w):
        if not w.symbolic:
            return
        import binascii
        from symex import models, strs
        from symex.core import SStr, lift_str
        it = w.it
        # the samples are made "symbolic" by wrapping them as SStr with concrete atoms mixed with
        # one fresh atom pinned to its value, so that the symbolic code paths (DFAs) really run
        for s in INT_SAMPLES:
            want = outcome(lambda: int(s))
            got = outcome(lambda: models.m_int(it, [pinned(w, s)], {}))
            w.check(norm(w, got) == want, f"model conformance: int({s!r}): native {want}, model "
                                          f"{norm(w, got)}")
        for s in FLOAT_SAMPLES:
            for lo, hi in ((0.0, 100.0), (-1.0, 1.0)):
                def native():
                    v = float(s)
                    return bool(v >= lo) and bool(v <= hi)

                def model():
                    f = strs.py_float_of_str(w.p, pinned(w, s))
                    a = models.sym_order(it, __import__("ast").GtE, f, lo)
                    b = models.sym_order(it, __import__("ast").LtE, f, hi)
                    return it.truth(a) and it.truth(b)
                want, got = outcome(native), outcome(model)
                w.check(got == want, f"model conformance: {lo} <= float({s!r}) <= {hi}: native "
                                     f"{want}, model {got}")
        for s in HEXINT_SAMPLES:
            want = outcome(lambda: int(s, 16))
            got = outcome(lambda: models.m_int(it, [pinned(w, s), 16], {}))
            w.check(norm(w, got) == want, f"model conformance: int({s!r}, 16): native {want}, "
                                          f"model {norm(w, got)}")
        for s in HEX_SAMPLES:
            want = outcome(lambda: binascii.unhexlify(s))
            got = outcome(lambda: models.m_unhexlify(it, [pinned(w, s)], {}))
            w.check(norm(w, got) == want, f"model conformance: unhexlify({s!r}): native {want}, "
                                          f"model {norm(w, got)}")
        w.goal("conform")

    def pinned(w, s):
        from symex.core import SStr
        atoms = []
        for i, ch in enumerate(s):
            c = w.p.fresh_char(f"c{i}")
            w.p.add(c == ord(ch))
            atoms.append(c)
        return SStr(atoms)

    def outcome(thunk):
        try:
            return ("ok", thunk())
        except Exception as exc:  # noqa: BLE001
            return ("raises", type(exc).__mro__[-3].__name__ if isinstance(exc, ValueError)
                    else type(exc).__name__)

    def norm(w, got):
        from symex.core import SBytes, SInt, concretize
        if got[0] == "ok" and isinstance(got[1], (SInt, SBytes)):
            return ("ok", concretize(got[1], w.p.current_model()))
        return got
    return fn


ZOO_SKIP = {  # constructs the interpreter does not implement (reported as Unsupported, i.e.
    # a check that meets them is INCONCLUSIVE, never silently wrong)
    "f_class_property", "f_getattr_default", "f_dataclass", "f_matchcase", "f_b_splitlines",
    "f_float", "f_int_base", "f_int_ops", "f_namedtuple", "f_bytes_ops", "f_lower_upper",
}


def zoo_functions():
    import inspect
    from verifspec import zoo
    return sorted(n for n, f in vars(zoo).items()
                  if n.startswith("f_") and inspect.isfunction(f) and n not in ZOO_SKIP)


def construct_zoo():
    """Differential check of the interpreter on a zoo of everyday Python constructs (string /
    bytes methods, formatting, comprehensions, sorting, dict / set operations, generators,
    closures ...): every function is run on symbolic arguments; on every path the result,
    evaluated under the path's model, must equal what CPython returns for the model's values."""
    def norm(x):
        if hasattr(x, "__next__"):
            x = list(x)
        if isinstance(x, (list, tuple)):
            return [norm(y) for y in x]
        if isinstance(x, (set, frozenset)):
            return sorted(norm(y) for y in x)
        if isinstance(x, dict):
            return sorted((norm(k), norm(v)) for k, v in x.items())
        if isinstance(x, (bytes, bytearray)):
            return bytes(x)
        return x

    def fn(w):
        if not w.symbolic:
            return
        import inspect
        from symex.core import concretize
        from verifspec import zoo
        name = w.pick(zoo_functions(), "function")
        f = getattr(zoo, name)
        args = []
        for a in inspect.signature(f).parameters:
            if a in ("n", "m"):
                args.append(w.fresh_int(a, -3, 300))
            elif a == "s":
                args.append(w.fresh_str(a, 3))
            elif a == "b":
                args.append(w.fresh_bytes(a, 3))
            else:
                args.append(w.fresh_int(a) if w.flag("x_is_int") else w.fresh_str(a, 1))
        w.info = {"function": name}
        try:
            got = ("ok", w.call(f, *args))
        except Exception as exc:  # noqa: BLE001
            got = ("raises", type(exc).__name__)
        m = w.p.current_model()
        cargs = [concretize(a, m) for a in args]
        try:
            want = ("ok", norm(f(*cargs)))
        except Exception as exc:  # noqa: BLE001
            want = ("raises", type(exc).__name__)
        if got[0] == "ok":
            val = concretize(got[1], m)
            if "opaque" in repr(val).lower():
                w.goal("zoo")
                return  # text the engine keeps opaque (log-style formatting): nothing claimed
            got = ("ok", norm(val))
        w.check(got == want, f"model conformance: zoo {name}{tuple(cargs)!r}: native {want}, "
                             f"interpreter {got}")
        w.goal("zoo")
    return fn


def build(tier):
    hs = [
        Harness("translator-validation", translator(),
                {"frames": f"{len(SCRIPT)} scripted + {len(fixture_frames())} fixture frames "
                 "harvested from /repo/tests", "versions": C.VERSIONS}, goals=["validated"],
                doc="interpreter (all-concrete) vs native CPython: replies, emissions, state"),
        Harness("model-conformance", conformance(),
                {"int": len(INT_SAMPLES), "float": len(FLOAT_SAMPLES), "hex": len(HEX_SAMPLES),
                 "int16": len(HEXINT_SAMPLES)},
                goals=["conform"], doc="int()/float()/unhexlify models vs the real functions"),
        Harness("construct-zoo", construct_zoo(),
                {"functions": len(zoo_functions()), "skipped_unsupported": sorted(ZOO_SKIP),
                 "args": "ints -3..300, text <= 3 code points, 3 bytes"}, goals=["zoo"],
                doc="interpreter vs CPython on a zoo of everyday constructs, per path model"),
    ]
    return {
        "harnesses": hs,
        "level_text": "engine self-validation (not a property of the repository)",
        "assumptions": [], "outside": [], "stubs": [],
    }
