"""C08 extras: accepted desired values are deliverable (refused at call time otherwise)."""
from symex.run import Harness

from . import common as C

VERSIONS = ["2.0", "2.1", "2.2"]


def deliverable(versions):
    def fn(w):
        from mysensors.message import Message
        version = w.pick(versions, "version")
        shape = w.pick([["sleep"], ["sleep_old"]], "shape")
        env = C.make_env(w)
        with env.installed():
            g = C.make_gateway(w, version)
            ids = C.gen_network(w, g, shape)
            nid = ids[0]
            sensor = g.gw.sensors[nid]
            cid = w.pick(list(sensor.children.keys()), "child")
            child = sensor.children[cid]
            reported = list(child.values.keys())
            vt_kind = w.pick(["int", "numeric-str"], "value_type_kind")
            vt_int = w.fresh_int("arg.value_type")
            vt = vt_int if vt_kind == "int" else C.concat(w, [vt_int])
            value = w.fresh_str("arg.value", 2)
            w.info = {"version": version, "shape": shape, "call": [nid, cid, vt, value]}
            covered = any(k is cid for k in sensor.new_state)
            try:
                w.call(g.gw.set_child_value, nid, cid, vt, value)
            except Exception:
                w.goal("refused")
                return
            w.goal("accepted")
            w.check(covered, "desired value accepted for a child the wake-up flush does not cover")
            C.drain(w, g)
            w.check(len(C.emissions(g)) == 0, "desired value for a sleeping node sent at once")
            # the node wakes up: the value must go out iff the node has reported that type
            try:
                C.step_line(w, g, C.wakeup_line(w, version, nid))
            except Exception as exc:
                w.escaped(exc, "wake-up flush raised for an accepted desired value")
            has_reported = w.or_(*[w.eq(vt_int, k) for k in reported])
            def is_wanted(e):
                # the set command for (child, type, value); its ack flag is not prescribed
                f_ = C.line_fields(w, e)
                if f_ is None:
                    return False
                ints, payload = f_
                return w.and_(w.eq(ints[0], nid), w.eq(ints[1], cid), w.eq(ints[2], 1),
                              w.eq(ints[4], vt_int), w.eq(payload, value))
            sent = [is_wanted(e) for e in C.emissions(g)]
            w.check(w.implies(has_reported, w.or_(*sent)),
                    "accepted desired value for a reported value type was not sent at wake-up")
            # and again at the next wake-up (not yet confirmed by the node)
            del g.conn.written[:]
            C.step_line(w, g, C.wakeup_line(w, version, nid))
            sent = [is_wanted(e) for e in C.emissions(g)]
            w.check(w.implies(has_reported, w.or_(*sent)),
                    "pending desired value was not re-sent at the following wake-up")
    return fn


def harnesses(tier):
    return [Harness("deliverable", deliverable(VERSIONS),
                    {"value_atoms_max": 2, "value_type": "unbounded int or its decimal string",
                     "shapes": [["sleep"], ["sleep_old"]]},
                    goals=["accepted", "refused"],
                    doc="set_child_value on a sleeping node: refused or delivered at wake-up")]
