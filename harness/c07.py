"""C07 - see DESIGN.md section 5; assertions selected from harness/stepref.py."""
from . import stepref
from . import c07_extra as extra


def build(tier):
    return stepref.build_for("C07", {"sleep"}, tier,
                             "inductive one-step proof that no non-stream command leaves the gateway for a node that was smart-sleeping before the step unless the step's inbound message is that node's wake-up announcement, and that nothing is parked for a node that is awake", extra=extra.harnesses(tier), versions=extra.VERSIONS)
