"""C02 - wire codec is a faithful, canonical round trip (mysensors/message.py)."""
import re

import z3

from symex import strs
from symex.core import WS_RANGES, Render, SInt, SStr, in_ranges, lift_str
from symex.run import Harness

from . import common as C


def h2a(P):
    def fn(w):
        from mysensors.message import Message
        kind = w.pick(["int", "enum"], "field_kind")
        if kind == "int":
            ints = [w.fresh_int(n) for n in C.FIELDS[:5]]
        else:
            const = C.const_for("2.2")
            ints = [w.fresh_int("node_id"), w.fresh_int("child_id"),
                    w.pick(list(const.MessageType), "type_member"), w.fresh_int("ack"),
                    w.pick([const.Internal.I_VERSION, const.SetReq.V_TEMP, const.Stream.ST_IMAGE],
                           "sub_member")]
        payload = C.wire_payload(w, "payload", P)
        w.info = {"fields": ints, "payload": payload}
        m = w.new(Message, node_id=ints[0], child_id=ints[1], type=ints[2], ack=ints[3],
                  sub_type=ints[4], payload=payload)
        line = w.call(m.encode)
        w.check(line is not None, "encode returned None")
        try:
            m2 = w.new(Message, line)
        except ValueError as exc:
            w.escaped(exc, "decode(encode(m)) raised")
        for name, orig in zip(C.FIELDS, ints + [payload]):
            w.check(w.eq(w.get(m2, name), orig), f"round trip changed {name}")
        w.goal("roundtrip")
    return fn


def h2b(F, maxsep, wide_upto=None):
    """F code points per field for lines with at most `wide_upto` separators (all of them if
    None), 1 code point per field beyond that (such lines cannot decode: they are only there for
    totality)."""
    def fn(w):
        from mysensors.message import Message
        nsep = w.choose(maxsep + 1, "separators")
        fields = []
        for i in range(nsep + 1):
            f_ = w.fresh_str(f"f{i}", F if wide_upto is None or nsep <= wide_upto else 1)
            if w.symbolic:
                for c in f_.cs:
                    # the separator count is enumerated, not the field content; a line never
                    # contains a line feed (the framing splits at LF)
                    w.p.add(z3.Not(c == 59), z3.Not(c == 10))
            fields.append(f_)
        term = w.pick(["\n", "", "\r\n", " \n"], "terminator")
        parts = []
        for i, f_ in enumerate(fields):
            if i:
                parts.append(";")
            parts.append(f_)
        parts.append(term)
        line = C.concat(w, parts)
        w.info = {"line": line}
        try:
            m = w.new(Message, line)
        except ValueError:
            w.goal("rejected")
            return
        except Exception as exc:
            w.escaped(exc, "decode raised")
        w.goal("accepted")
        enc = w.call(m.encode)
        w.check(enc is not None, "encode of an accepted line returned None")
        C.check_canonical(w, enc, "re-encoded line")
        try:
            m2 = w.new(Message, enc)
        except ValueError as exc:
            w.escaped(exc, "canonical line does not decode")
        for name in C.FIELDS:
            w.check(w.eq(w.get(m2, name), w.get(m, name)), f"canonical line decodes to other {name}")
        enc2 = w.call(m2.encode)
        w.check(w.eq(enc2, enc), "re-encoding is not idempotent")
    return fn


def h2c(P):
    def fn(w):
        from mysensors.message import Message
        ints = [w.fresh_int(n) for n in C.FIELDS[:5]]
        payload = C.wire_payload(w, "payload", P)
        gw = object()
        m = w.new(Message, node_id=ints[0], child_id=ints[1], type=ints[2], ack=ints[3],
                  sub_type=ints[4], payload=payload)
        w.set(m, "gateway", gw)
        kw = {}
        for name in C.FIELDS:
            if w.flag(f"replace_{name}"):
                kw[name] = (w.fresh_int(f"new_{name}") if name != "payload"
                            else w.fresh_str("new_payload", 2))
        w.info = {"fields": ints, "payload": payload, "replace": kw}
        try:
            c = w.call(m.copy, **kw)
        except Exception as exc:
            w.escaped(exc, "copy raised")
        for name, orig in zip(C.FIELDS, ints + [payload]):
            want = kw[name] if name in kw else orig
            w.check(w.eq(w.get(c, name), want), f"copy: field {name} wrong"
                    + (" (replaced)" if name in kw else " (untouched)"))
        w.check(w.get(c, "gateway") is gw, "copy lost the gateway reference")
        for name, orig in zip(C.FIELDS, ints + [payload]):
            w.check(w.eq(w.get(m, name), orig), f"copy modified the original's {name}")
        w.goal("copied")
    return fn


def h2d(maxdigits):
    """Engine validation: the lazy Render lemmas against the explicit-digit model."""
    def fn(w):
        n = w.fresh_int("n", -(10 ** maxdigits) + 1, 10 ** maxdigits - 1)
        m = w.fresh_int("m", -(10 ** maxdigits) + 1, 10 ** maxdigits - 1)
        w.info = {"n": n, "m": m}
        if w.symbolic:
            sn = SStr(strs.explicit_digits(w.p, n.e, maxdigits))
            sm = SStr(strs.explicit_digits(w.p, m.e, maxdigits))
            back = strs.py_int_of_str(w.p, sn)
            w.check(w.eq(back, n), "int(str(n)) != n on the explicit-digit model")
            first, last = sn.cs[0], sn.cs[-1]
            for c in sn.cs:
                ok = z3.Or(c == 45, z3.And(c >= 48, c <= 57)) if not isinstance(c, int) else True
                w.check(ok, "rendered char outside -0123456789")
            if not isinstance(last, int):
                w.check(z3.And(last >= 48, last <= 57), "rendering does not end with a digit")
            same = strs.s_eq(w.p, sn, sm)
            w.check(w.implies(same, w.eq(n, m)), "str(int) not injective on the explicit model")
        else:
            w.check(int(str(n)) == n and re.fullmatch(r"-?(0|[1-9][0-9]*)", str(n)) is not None,
                    "CPython str/int disagree with the lemma")
            w.check((str(n) == str(m)) == (n == m), "CPython str(int) not injective")
        w.goal("lemmas")
    return fn


def build(tier):
    q = tier == "quick"
    P = 3 if q else 5
    F = 1 if q else 2
    hs = [
        Harness("H2a-encode-decode", h2a(P), {"payload_atoms_max": P, "ints": "unbounded"},
                goals=["roundtrip"], doc="decode(encode(m)) == m for wire-carriable payloads"),
        Harness("H2b-decode-canonical", h2b(F, 7, None if q else 5),
                {"separators": "0..7", "field_code_points_max": F if q else "2 (1 beyond 5 "
                 "separators)",
                 "terminators": ["\\n", "", "\\r\\n", " \\n"]},
                goals=["accepted", "rejected"],
                doc="every raw line: ValueError or canonical, idempotent re-encode"),
        Harness("H2c-copy", h2c(2), {"payload_atoms_max": 2, "subsets": 64}, goals=["copied"],
                doc="copy(**kw) for every subset of replaced fields"),
        Harness("H2d-render-lemmas", h2d(4 if q else 6), {"abs_n_below": 10 ** (4 if q else 6)},
                goals=["lemmas"], doc="lazy str(int) lemmas vs explicit digits"),
    ]
    if not q:
        hs.insert(2, Harness("H2b-wide-fields", h2b(3, 3),
                             {"separators": "0..3", "field_code_points_max": 3},
                             goals=["rejected"], doc="raw lines with wider fields, few separators"))
    return {
        "harnesses": hs,
        "level_text": "bounded symbolic execution of Message.decode/encode/copy over unbounded "
                      "integer fields and full-Unicode code points; every feasible path explored",
        "assumptions": ["payload precondition for H2a/H2c: no ';', no CR/LF, no trailing "
                        "whitespace (the property's exclusions)",
                        "str(int) kept lazy (Render) with lemmas proved by H2d up to the digit bound"],
        "outside": [f"payloads longer than {P} code points", "lines with an interior line feed",
                    f"raw fields longer than {F} code points (3 in the wide harness)"],
        "stubs": ["logging -> no-op"],
    }
