"""C08 - see DESIGN.md section 5; assertions selected from harness/stepref.py."""
from . import stepref
from . import c08_extra as extra


def build(tier):
    return stepref.build_for("C08", {"reply", "state"}, tier,
                             "inductive one-step equivalence with the reference hold/flush rules: wake-up burst = withheld lines in order + one set per reported and pending value type, desired entries cleared exactly by the matching report, requests answered from the desired state", extra=extra.harnesses(tier), versions=extra.VERSIONS)
