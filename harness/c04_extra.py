VERSIONS = None


def harnesses(tier):
    return []
