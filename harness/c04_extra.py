"""C04 extras: the "safe fallbacks (0, '1.4') for unusable ones" clause at the attribute level.

Through the pump the validator already rejects unusable battery / heartbeat / version payloads,
so the fallbacks are only reachable through the public attribute setters (controller code, and a
persistence file written by another version of the library): symbolic text is assigned to each
setter and the stored value is compared with the clause."""
from symex.run import Harness

from . import common as C

VERSIONS = None

VERSION_TEXTS = ["1.4", "2.0", "2.2.0", "2.3", "1.3", "0.9", "1.10", "", "abc", "one.two", "2"]


def fallback_version(text):
    parts = text.split(".")
    if not parts or not all(p.isascii() and p.isdigit() for p in parts) or len(parts) > 3:
        return "1.4"
    nums = [int(p) for p in parts] + [0, 0]
    return text if (nums[0], nums[1]) >= (1, 4) else "1.4"


def try_int(w, text):
    """(ok, value) of int(text) under Python's rules, via the engine's own model."""
    try:
        return True, w.call(int, text)
    except ValueError:
        return False, 0


def attribute_fallbacks():
    def fn(w):
        from mysensors.sensor import Sensor
        attr = w.pick(["battery_level", "heartbeat", "protocol_version"], "attribute")
        env = C.make_env(w)
        with env.installed():
            s = w.new(Sensor, 1)
            if attr == "protocol_version":
                text = w.pick(VERSION_TEXTS, "text")
            else:
                text = w.fresh_str("text", 3)
            w.info = {"attribute": attr, "text": text}
            try:
                w.set(s, attr, text)
            except Exception as exc:
                w.escaped(exc, f"assigning {attr} raised")
            got = w.get(s, attr)
            if attr == "protocol_version":
                w.check(got == fallback_version(text),
                        f"protocol_version after assigning {text!r} is {got!r}")
                w.goal("version")
                return
            ok, val = try_int(w, text)
            if attr == "battery_level":
                usable = ok and w.is_true(w.and_(w.le(0, val), w.le(val, 100)))
            else:
                usable = ok
            if usable:
                w.check(w.eq(got, val), f"{attr}: a usable value was not stored")
                w.goal("stored")
            else:
                w.check(w.eq(got, 0), f"{attr}: an unusable value did not fall back to 0")
                w.goal("fallback")
    return fn


def harnesses(tier):
    return [Harness("attribute-fallbacks", attribute_fallbacks(),
                    {"attributes": ["battery_level", "heartbeat", "protocol_version"],
                     "text": "any text <= 3 code points (version: a grid of 11 strings)"},
                    goals=["stored", "fallback", "version"],
                    doc="setters keep usable values and fall back to 0 / '1.4' otherwise")]
