"""C14 - a clean stop loses nothing (Inv clause persisted-or-dirty)."""
from symex.run import Harness

from . import common as C
from . import persist as P


def dirty_after_step(versions, shapes, Pn):
    """From need_save == False and file == projection: any step that changes the persisted
    projection must set need_save."""
    def fn(w):
        version = w.pick(versions, "version")
        fs = P.make_fs(w, "json")
        with fs.installed():
            ints = [w.fresh_int(n) for n in C.FIELDS[:5]]
            payload = C.wire_payload(w, "payload", Pn)
            line = C.structured_line(w, ints, payload)
            w.info = {"version": version, "line": line}
            if C.classify(w, version, line) != "accepted":
                w.goal("rejected")
                return
            shape = w.pick(shapes, "shape")
            # the event callback is optional: saving must not depend on one being registered
            # (forked for one populated shape only; raising / returning is a lazy symbolic flag)
            callback = w.pick(["registered", "none"], "event_callback") \
                if shape == shapes[min(1, len(shapes) - 1)] else "registered"
            g = P.pgateway(w, version, "json", cb_raises=C.sym_flag(w, "callback_raises"),
                           callback=callback)
            ids = C.gen_network(w, g, shape)
            C.gen_ota(w, g, ids)
            pers = g.gw.tasks.persistence
            pers.need_save = False
            before = P.snapshot(g.gw.sensors)
            fs.files[P.fname("json")] = [("GOOD", before), True]
            w.info["shape"] = shape
            try:
                C.step_line(w, g, line)
            except Exception as exc:
                w.escaped(exc, f"pump raised[{C.kind_tag(w, version, ints)}]")
            after = P.snapshot(g.gw.sensors)
            w.goal("accepted")
            if pers.need_save is not True:
                w.goal("clean")
                w.check(w.eq(after, before),
                        f"persisted state changed without being marked unsaved "
                        f"[{C.kind_tag(w, version, ints)}]")
            else:
                w.goal("dirty")
    return fn


def stop_persists(versions, fmts):
    """stop() / a save tick as a step, from any state satisfying persisted-or-dirty: afterwards
    the file reproduces the projection at the next start."""
    def fn(w):
        version = w.pick(versions, "version")
        fmt = w.pick(fmts, "format")
        flavour = w.pick(["sync", "async"], "flavour")
        how = w.pick(["stop", "tick"], "step")
        dirty = w.flag("need_save")
        fs = P.make_fs(w, fmt)
        with fs.installed():
            g = P.pgateway(w, version, fmt, flavour)
            C.gen_network(w, g, ["awake1", "bare"])
            pers = g.gw.tasks.persistence
            cur = P.snapshot(g.gw.sensors)
            pers.need_save = dirty
            main = P.fname(fmt)
            if dirty:
                if w.flag("old_file_exists"):
                    fs.files[main] = [("GOOD", P.small_state(w, "old")), True]
            else:
                fs.files[main] = [("GOOD", cur), True]
            w.info = {"version": version, "format": fmt, "flavour": flavour, "step": how,
                      "need_save": dirty}
            try:
                if how == "stop":
                    P.run_sync_or_coro(w, w.call(g.gw.stop))
                else:
                    w.call(pers.save_sensors)
            except Exception as exc:
                w.escaped(exc, f"{how} raised")
            w.check(pers.need_save is False, f"{how} left the state marked unsaved")
            fs.after_crash(False)
            g2 = P.pgateway(w, version, fmt, flavour)
            try:
                w.call(g2.gw.tasks.persistence.safe_load_sensors)
            except Exception as exc:
                w.escaped(exc, "load at the next start raised")
            w.check(w.eq(P.snapshot(g2.gw.sensors), cur),
                    f"state after restart differs from the state at {how}")
            w.goal(how)
    return fn


def start_change_stop(versions, fmts):
    """start_persistence() (load + first scheduled save), a message that changes the state, then
    stop(): the periodic schedule is cancelled and the file reproduces the final state."""
    def fn(w):
        version = w.pick(versions, "version")
        fmt = w.pick(fmts, "format")
        flavour = w.pick(["sync", "async"], "flavour")
        fs = P.make_fs(w, fmt)
        with fs.installed():
            old = P.small_state(w, "old")
            fs.files[P.fname(fmt)] = [("GOOD", old), True]
            fs.cancel_sleep_at = 0  # asyncio: stop() cancels the task while it sleeps
            # asyncio: did the event loop get a turn between start_persistence() and stop()?  If
            # not (start-up, one message handled inline, shutdown), the periodic save task has
            # not run a single step when stop() cancels it.
            turn = w.flag("loop_ran_before_stop") if flavour == "async" else True
            fs.loop.tasks_start_at_once = turn
            g = P.pgateway(w, version, fmt, flavour)
            w.info = {"version": version, "format": fmt, "flavour": flavour,
                      "loop_ran_before_stop": turn}
            try:
                P.run_sync_or_coro(w, w.call(g.gw.start_persistence))
            except Exception as exc:
                w.escaped(exc, "start_persistence raised")
            w.check(w.eq(P.snapshot(g.gw.sensors), old), "start did not load the saved state")
            nid = old[0][0]
            child = w.fresh_int("new.child", 0, 254)
            w.assume_fast(w.ne(child, old[0][1][7][0][0]))
            line = C.structured_line(w, [nid, child, 0, 0, 6], "t")
            import asyncio
            try:
                C.step_line(w, g, line)
                P.run_sync_or_coro(w, w.call(g.gw.stop))
            except (Exception, asyncio.CancelledError) as exc:
                w.escaped(exc, "message / stop raised")
            final = P.snapshot(g.gw.sensors)
            w.check(len(final[0][1][7]) == 2, "the child presentation was not recorded")
            if flavour == "sync":
                w.check(len(fs.timers) >= 1 and fs.timers[-1].cancelled,
                        "stop() did not cancel the periodic save timer")
            else:
                w.check(len(fs.loop.tasks) == 1 and fs.loop.tasks[0].cancel_requested,
                        "stop() did not cancel the periodic save task")
            fs.after_crash(False)
            g2 = P.pgateway(w, version, fmt, flavour)
            w.call(g2.gw.tasks.persistence.safe_load_sensors)
            w.check(w.eq(P.snapshot(g2.gw.sensors), final),
                    "state after restart differs from the state at stop()")
            w.goal("restarted")
    return fn


H_KINDS = ["node-presentation", "child-presentation", "set", "id-request", "battery", "save-tick"]


def history_stop(versions, fmts, k):
    """Bounded histories from the empty gateway through the public API, periodic save ticks at
    arbitrary positions, ended by stop(); the next start must reproduce the final state."""
    def fn(w):
        version = w.pick(versions, "version")
        fmt = w.pick(fmts, "format")
        fs = P.make_fs(w, fmt)
        with fs.installed():
            g = P.pgateway(w, version, fmt)
            pers = g.gw.tasks.persistence
            ok_types = C.str_rule_types(version)
            w.info = {"version": version, "format": fmt, "events": []}
            try:
                w.call(g.gw.start_persistence)  # nothing on disk yet: empty network, first tick
            except Exception as exc:
                w.escaped(exc, "start_persistence raised")
            for i in range(k):
                kind = w.pick(H_KINDS, f"event{i}")
                n = w.fresh_int(f"e{i}.node", 0, 254)
                c = w.fresh_int(f"e{i}.child", 0, 254)
                if kind == "save-tick":
                    w.info["events"].append("tick")
                    try:
                        w.call(fs.timers[-1].fn)
                    except Exception as exc:
                        w.escaped(exc, "save tick raised")
                    continue
                if kind == "node-presentation":
                    line = C.structured_line(w, [n, 255, 0, 0, 17], version)
                elif kind == "child-presentation":
                    line = C.structured_line(w, [n, c, 0, 0, 6], "t")
                elif kind == "set":
                    vt = w.fresh_int(f"e{i}.vt")
                    w.assume_fast(C.one_of(w, vt, ok_types))
                    line = C.structured_line(w, [n, c, 1, 0, vt], C.wire_payload(w, f"e{i}.v", 1, 1))
                elif kind == "battery":
                    line = C.structured_line(w, [n, 255, 3, 0, 0], w.fresh_int(f"e{i}.b", 0, 100))
                else:
                    line = C.structured_line(w, [255, 255, 3, 0, 3], "")
                w.info["events"].append(line)
                try:
                    C.step_line(w, g, line)
                except Exception as exc:
                    w.escaped(exc, f"pump raised at event {i + 1} ({kind})")
            try:
                w.call(g.gw.stop)
            except Exception as exc:
                w.escaped(exc, "stop raised")
            final = P.snapshot(g.gw.sensors)
            fs.after_crash(False)
            g2 = P.pgateway(w, version, fmt)
            try:
                w.call(g2.gw.tasks.persistence.safe_load_sensors)
            except Exception as exc:
                w.escaped(exc, "load at the next start raised")
            w.check(w.eq(P.snapshot(g2.gw.sensors), final),
                    "state after restart differs from the state at stop()")
            w.goal("history-stop")
    return fn


def build(tier):
    P.contract()  # tabulated once here, inherited by every forked explorer
    q = tier == "quick"
    shapes = [[], ["sleep", "awake"]] if q else [[], ["sleep", "awake"], ["awake", "sleep"],
                                                  ["sleep_old", "bare"]]
    hs = [
        Harness("dirty-after-step", dirty_after_step(C.VERSIONS, shapes, 1 if q else 2),
                {"payload_atoms_max": 1 if q else 2, "shapes": shapes, "pre": "need_save == False"
                 " and file == projection"},
                goals=["accepted", "clean", "dirty"],
                doc="every accepted message kind: projection changed => need_save set"),
        Harness("stop-persists", stop_persists(["1.4", "2.2"], ["json", "pickle"]),
                {"flavours": ["sync", "async"], "steps": ["stop()", "save tick"]},
                goals=["stop", "tick"],
                doc="stop()/tick from persisted-or-dirty: restart reproduces the projection"),
        Harness("start-change-stop", start_change_stop(["1.4", "2.2"], ["json", "pickle"]),
                {"flavours": ["sync", "async"], "history": "start_persistence, child presentation, "
                 "stop()"}, goals=["restarted"],
                doc="public API history: load + first tick, a change, stop(), restart"),
        Harness("history-stop", history_stop(["1.4", "2.2"] if q else C.VERSIONS,
                                             ["json"] if q else ["json", "pickle"], 3 if q else 4),
                {"events": 3 if q else 4, "kinds": H_KINDS, "start": "empty gateway, no file",
                 "end": "stop(), restart, load"}, goals=["history-stop"],
                doc="bounded histories with save ticks anywhere, ended by stop(): nothing lost"),
    ]
    return {
        "harnesses": hs,
        "level_text": "inductive step for the invariant 'need_save or file == projection': every "
                      "handler kind from a clean persisted pre-state, and stop()/save tick as "
                      "steps on the abstract file system; induction covers every history",
        "assumptions": ["abstract serialiser: file content = persisted projection at dump time "
                        "(the real encoders are C11's subject)", "pre-states in Inv"],
        "outside": ["save racing with a message (C15)", "crashes (C12)"],
        "stubs": ["open/os.*/pickle/json -> abstract FS", "threading.Timer not reached"],
    }
