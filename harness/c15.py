"""C15 - periodic saving heals itself."""
from symex.fsenv import Crash
from symex.run import Harness

from . import common as C
from . import persist as P

TICKS = 3
MAXOPS = 10


def grow(w, g, i):
    """Between two ticks a message adds a node (the state is marked unsaved, as alert() does)."""
    extra = P.small_state(w, f"tick{i}")
    w.assume_fast(w.and_(*[w.ne(extra[0][0], k) for k in g.gw.sensors.keys()]))
    P.install_state(g, extra)
    g.gw.tasks.persistence.need_save = True


def inject(w, fs, kind, pos):
    if kind == "os-error":
        fs.fault_at = fs.nops + pos
    elif kind == "changed-during-write":
        fs.dump_fault = True
    elif kind == "not-writable":
        fs.deny_write = True


def file_state(w, fs, fmt):
    """What a start-up load would yield right now - through the real loader (main file, else
    backup), on a copy of the file system.  () is the empty network."""
    return P.load_probe(w, fs, fmt)


def threaded(fmts):
    def fn(w):
        fmt = w.pick(fmts, "format")
        bad_tick = w.choose(TICKS + 1, "failing_tick")  # TICKS = no fault at all
        kind = w.pick(["os-error", "changed-during-write", "not-writable"], "fault_kind") \
            if bad_tick < TICKS \
            else "none"
        pos = w.choose(MAXOPS, "fault_position") if kind == "os-error" else 0
        fs = P.make_fs(w, fmt)
        with fs.installed():
            g = P.pgateway(w, "2.2", fmt)
            P.install_state(g, P.small_state(w, "s0"))
            pers = g.gw.tasks.persistence
            pers.need_save = True
            w.info = {"format": fmt, "flavour": "threaded", "failing_tick": bad_tick,
                      "fault": kind, "position": pos}
            fire = pers.schedule_save_sensors  # what start_persistence calls first
            last_good = None
            for i in range(TICKS):
                if i:
                    grow(w, g, i)
                cur = P.snapshot(g.gw.sensors)
                if i == bad_tick:
                    inject(w, fs, kind, pos)
                ntimers = len(fs.timers)
                failed = False
                try:
                    w.call(fire)
                except Exception as exc:
                    if not getattr(exc, "_symex_prog", True):
                        w.escaped(exc, "tick")
                    failed = True  # in the timer thread this just ends the thread
                injected_hit = (i == bad_tick and (fs.fault_at is None and kind == "os-error"
                                                   or kind in ("changed-during-write",
                                                               "not-writable")))
                fs.fault_at = None
                fs.deny_write = False
                w.check(len(fs.timers) == ntimers + 1 and fs.timers[-1].started,
                        f"tick {i}: the periodic schedule was not re-armed after "
                        + ("a failing save" if failed or injected_hit else "a save"))
                if injected_hit:
                    w.goal("fault-hit")
                    w.check(pers.need_save is True, "failed save cleared the unsaved flag")
                    now = file_state(w, fs, fmt)
                    w.check(w.or_(w.eq(now, cur), w.eq(now, last_good or ())),
                            "after a failed save a start-up load yields neither the previously "
                            "saved nor the current state")
                else:
                    w.check(w.eq(file_state(w, fs, fmt), cur),
                            f"tick {i}: successful save did not persist the current state")
                    w.check(pers.need_save is False, "successful save left the flag set")
                    last_good = cur
                fire = fs.timers[-1].fn
            w.goal("ticks-done")
    return fn


def asynchronous(fmts):
    def fn(w):
        fmt = w.pick(fmts, "format")
        bad_tick = w.choose(TICKS + 1, "failing_tick")
        kind = w.pick(["os-error", "changed-during-write", "not-writable"], "fault_kind") \
            if bad_tick < TICKS \
            else "none"
        pos = w.choose(MAXOPS, "fault_position") if kind == "os-error" else 0
        fs = P.make_fs(w, fmt)
        with fs.installed():
            g = P.pgateway(w, "2.2", fmt, flavour="async")
            P.install_state(g, P.small_state(w, "s0"))
            pers = g.gw.tasks.persistence
            pers.need_save = True
            w.info = {"format": fmt, "flavour": "asyncio", "failing_tick": bad_tick,
                      "fault": kind, "position": pos}
            seen = {"saves": 0}
            snaps = [P.snapshot(g.gw.sensors)]
            if bad_tick == 0:
                inject(w, fs, kind, pos)

            def between(i):
                # called at the i-th asyncio.sleep, i.e. after save attempt i
                seen["saves"] = i + 1
                fs.fault_at = None
                fs.dump_fault = False
                fs.deny_write = False
                if i == bad_tick:
                    now = file_state(w, fs, fmt)
                    w.check(w.or_(w.eq(now, snaps[i]), w.eq(now, snaps[i - 1] if i else ())),
                            "after a failed save a start-up load yields neither the previously "
                            "saved nor the current state")
                    w.check(pers.need_save is True or w.truth(w.eq(now, snaps[i])),
                            "failed save cleared the unsaved flag")
                if i + 1 < TICKS:
                    grow(w, g, i + 1)
                    snaps.append(P.snapshot(g.gw.sensors))
                    if i + 1 == bad_tick:
                        inject(w, fs, kind, pos)
            fs.on_async_sleep = between
            fs.cancel_sleep_at = TICKS - 1  # stop() cancels the task during the last sleep
            try:
                P.run_sync_or_coro(w, w.call(pers.schedule_save_sensors))
                w.check(len(fs.loop.tasks) == 1, "schedule_save did not create the save task")
                fs.loop.tasks[0].run()
            except Exception as exc:
                w.check(False, f"the periodic save task died: {type(exc).__name__}")
            w.check(seen["saves"] == TICKS,
                    "the periodic save task stopped before it was cancelled")
            final = P.snapshot(g.gw.sensors)
            if bad_tick != TICKS - 1:
                w.check(w.eq(file_state(w, fs, fmt), final),
                        "the save after the failed one did not persist the current state")
            w.goal("loop-ended-on-cancel")
    return fn


def build(tier):
    P.contract()  # tabulated once here, inherited by every forked explorer
    hs = [
        Harness("threaded-ticks", threaded(["json", "pickle"]),
                {"ticks": TICKS, "fault": "OSError at FS operation 0..9 of one tick | serialiser "
                 "raises RuntimeError (state changed during the write) | directory / file not "
                 "writable (os.access) | none"},
                goals=["ticks-done", "fault-hit"],
                doc="SyncTasks schedule_save closure fired three times with one transient fault"),
        Harness("asyncio-loop", asynchronous(["json", "pickle"]),
                {"ticks": TICKS, "fault": "as above", "cancel": "at the last sleep"},
                goals=["loop-ended-on-cancel"],
                doc="AsyncTasks save_on_schedule under the synchronous await model"),
    ]
    return {
        "harnesses": hs,
        "level_text": "symbolic execution of the real schedule_save closures (threaded timer "
                      "chain and asyncio loop) over three ticks with a transient fault at a "
                      "symbolic tick and operation, on the abstract file system",
        "assumptions": ["threading.Timer / asyncio loop replaced by recording fakes; an exception "
                        "leaving the timer callback ends that thread (CPython semantics)",
                        "a concurrent mutation during serialisation surfaces as RuntimeError "
                        "from the serialiser"],
        "outside": ["torn but successful serialisation under same-size concurrent mutation"],
        "stubs": ["threading.Timer", "asyncio.get_running_loop/sleep", "abstract FS"],
    }
