"""C07 extras: controller calls as steps (nothing may leave for a sleeping node)."""
from symex.run import Harness

from . import common as C

VERSIONS = ["2.0", "2.1", "2.2"]


def controller(versions):
    def fn(w):
        from mysensors.message import Message
        version = w.pick(versions, "version")
        call = w.pick(["set_child_value", "update_fw"], "call")
        env = C.make_env(w)
        env.add_load_fw(bytes(range(7, 107)))
        with env.installed():
            g = C.make_gateway(w, version)
            ids = C.gen_network(w, g, ["sleep", "awake"])
            sleepers = [nid for nid, s in g.gw.sensors.items() if len(s.new_state) > 0]
            node = w.fresh_int("arg.node", 0, 255)
            w.info = {"version": version, "call": call}
            try:
                if call == "set_child_value":
                    child = w.fresh_int("arg.child", 0, 254)
                    vt = w.fresh_int("arg.value_type")
                    value = C.wire_payload(w, "arg.value", 1)
                    w.info["args"] = [node, child, vt, value]
                    w.call(g.gw.set_child_value, node, child, vt, value)
                else:
                    w.call(g.gw.update_fw, node, w.fresh_int("fw_type", 0, 65535),
                           w.fresh_int("fw_ver", 0, 65535), fw_path="x.hex")
                w.goal("returned")
            except Exception:
                w.goal("refused")
            try:
                C.drain(w, g)
            except Exception as exc:
                w.escaped(exc, "pump raised after a controller call")
            for e in C.emissions(g):
                em = w.new(Message, e)
                for nid in sleepers:
                    w.check(w.not_(w.and_(w.eq(em.node_id, nid), w.ne(em.type, 4))),
                            f"{call} sent a command to a sleeping node outside its wake window")
            C.check_inv(w, g)
    return fn


def harnesses(tier):
    return [Harness("controller-calls", controller(VERSIONS),
                    {"calls": ["set_child_value", "update_fw"], "shape": ["sleep", "awake"]},
                    goals=["returned", "refused"],
                    doc="controller calls never emit to a sleeping node")]
