"""C05 extras: whatever a controller call left behind is emitted as a valid command."""
from symex.run import Harness

from . import common as C

VERSIONS = None


def after_controller_call(versions):
    def fn(w):
        from mysensors.message import Message
        from verifspec import serial_api as S
        from . import stepref
        version = w.pick(versions, "version")
        shape = w.pick([["sleep"], ["sleep_old"], ["awake1"]], "shape")
        env = C.make_env(w)
        with env.installed():
            g = C.make_gateway(w, version)
            ids = C.gen_network(w, g, shape)
            nid = ids[0]
            sensor = g.gw.sensors[nid]
            cid = w.pick(list(sensor.children.keys()), "child")
            vt = w.fresh_int("arg.value_type")
            value = C.wire_payload(w, "arg.value", 2)
            w.info = {"version": version, "shape": shape, "call": [nid, cid, vt, value]}
            try:
                w.call(g.gw.set_child_value, nid, cid, vt, value)
            except Exception:
                w.goal("refused")
                return
            w.goal("accepted")
            try:
                C.drain(w, g)
                # the node asks for the value, then announces a wake-up
                C.step_line(w, g, C.structured_line(w, [nid, cid, 2, 0, vt], ""))
                C.step_line(w, g, C.wakeup_line(w, version, nid))
            except Exception as exc:
                w.escaped(exc, "pump raised after a controller call")
            for e in C.emissions(g):
                C.check_canonical(w, e, "command emitted after set_child_value")
                try:
                    em = w.new(Message, e)
                    w.call(em.validate, version)
                except Exception:
                    w.fail(f"command emitted after set_child_value is not valid for version "
                           f"{version}")
                ok = w.call(S.accepts, version, em.node_id, em.child_id, em.type, em.ack,
                            em.sub_type, em.payload, stepref.version_stub)
                w.check(ok, "command emitted after set_child_value is not valid per the serial API")
                w.check(w.eq(em.node_id, nid), "command addressed to another node")
    return fn


def harnesses(tier):
    versions = ["2.0", "2.1", "2.2"] if tier == "quick" else C.VERSIONS
    return [Harness("after-controller-call", after_controller_call(versions),
                    {"call": "set_child_value(node, child, symbolic type, wire-carriable value)",
                     "then": "value request + wake-up announcement",
                     "shapes": [["sleep"], ["sleep_old"], ["awake1"]]},
                    goals=["accepted", "refused"],
                    doc="everything emitted after a controller call is a valid command")]
