"""C20 - connections are supervised and the callbacks are exact."""
from threading import Thread as _RealThread  # bound before the environment patches threading

from symex.run import Harness

from . import common as C

K = 6  # poll iterations in the watchdog harness


def tcp_gateway(w, flavour="sync", R=None):
    from mysensors import gateway_tcp
    cls = gateway_tcp.TCPGateway if flavour == "sync" else gateway_tcp.AsyncTCPGateway
    kw = {}
    if R is not None:
        kw["reconnect_timeout"] = R
    gw = w.new(cls, "127.0.0.1", **kw)
    return gw


def watchdog(lmax_kind):
    """(a) check_connection / _handle_i_version on a symbolic clock.

    lmax_kind 'R': every probe answered within R  => never dropped   (the statement)
              'R-2e': every probe answered within R - 2*eps => never dropped (what holds)
    plus: as long as no drop happened, now <= last answer + 2R (so a silent link is dropped at
    the first poll after 2R, i.e. within 2R + eps)."""
    def fn(w):
        env = C.make_env(w)
        with env.installed():
            R = w.fresh_real("R", 0)
            eps = w.fresh_real("eps", 0)
            w.assume_fast(w.lt(0, R))
            w.assume_fast(w.lt(0, eps))
            w.assume_fast(w.lt(w.mul(4, eps), R))  # polling period well below the timeout
            env.frozen = w.fresh_real("t0", 0)
            gw = tcp_gateway(w, "sync", R)
            t0 = gw.tcp_disconnect_timer
            lmax = R if lmax_kind == "R" else w.sub(R, w.mul(2, eps))
            probes = []  # times at which a probe was sent
            answers = []  # times at which an answer was processed
            last_reset = t0
            prev = t0
            w.info = {"R": R, "eps": eps, "latency_bound": lmax_kind, "t0": t0}
            dropped_at = None

            def threshold():
                # the next poll that does anything is the first one later than this instant;
                # polls come at least every eps, so it happens in (thr, thr + eps]
                a_ = w.add(gw.tcp_check_timer, R)
                b_ = w.add(gw.tcp_disconnect_timer, w.mul(2, R))
                return w.ite(w.lt(a_, b_), a_, b_)
            for i in range(K):
                thr = threshold()
                now = w.fresh_real(f"event{i}", 0)
                w.assume_fast(w.le(prev, now))
                w.assume_fast(w.le(now, w.add(thr, eps)))
                env.frozen = now
                if w.flag(f"event{i}_is_answer"):
                    try:
                        w.call(gw._handle_i_version, None)
                    except Exception as exc:
                        w.escaped(exc, "_handle_i_version raised")
                    answers.append(now)
                    last_reset = now
                    prev = now
                    continue
                w.assume_fast(w.lt(thr, now))  # an effective poll (earlier polls are no-ops)
                nq = len(gw.tasks.queue)
                try:
                    w.call(gw.check_connection)
                except OSError:
                    dropped_at = now
                    break
                except Exception as exc:
                    w.escaped(exc, "check_connection raised something other than OSError")
                prev = now
                if len(gw.tasks.queue) > nq:
                    probes.append(now)
                    w.goal("probe")
                else:
                    w.fail("a poll later than check_timer + R / disconnect_timer + 2R did nothing")
                w.check(w.le(now, w.add(last_reset, w.add(w.mul(2, R), eps))),
                        "link not dropped although 2 x reconnect_timeout passed without an answer")
            w.info.update({"probes": probes, "answers": answers, "dropped_at": dropped_at})
            if dropped_at is None:
                w.goal("alive")
                return
            w.goal("dropped")
            # premise: every probe whose deadline has passed was answered within lmax
            premise = []
            for s in probes:
                deadline = w.add(s, lmax)
                answered = w.or_(*[w.and_(w.le(s, a), w.le(a, deadline)) for a in answers])
                premise.append(w.or_(answered, w.lt(dropped_at, deadline)))
            w.check(w.not_(w.and_(*premise)) if premise else False,
                    f"link dropped although every probe was answered within {lmax_kind}")
    return fn


def protocol_classes():
    from mysensors import gateway_tcp, transport
    return {"threaded": transport.BaseMySensorsProtocol,
            "async-serial": transport.AsyncMySensorsProtocol,
            "async-tcp": gateway_tcp.AsyncTCPMySensorsProtocol}


def events():
    """(b) connection_made / connection_lost: callbacks exactly once per event; a reconnect
    attempt follows every loss that comes with an error."""
    def fn(w):
        kind = w.pick(sorted(protocol_classes()), "protocol")
        how = w.pick(["made", "lost(None)", "lost(exc)", "made+lost(exc)+made", "peer-close"],
                     "events")
        env = C.make_env(w)
        with env.installed():
            made, lost, reconnects = [], [], []
            if kind == "async-tcp":
                gw = tcp_gateway(w, "async")
            else:
                gw = C.make_gateway(w, "2.2", "sync" if kind == "threaded" else "async").gw
            gw.on_conn_made = C.Recorder2(made)
            gw.on_conn_lost = C.Recorder2(lost)
            proto = w.new(protocol_classes()[kind], gw, C.Recorder0(reconnects))
            conn = C.FakeConn()
            w.info = {"protocol": kind, "events": how}
            err = OSError("link down")
            try:
                if how == "made":
                    w.call(proto.connection_made, conn)
                    exp = (1, 0, 0)
                elif how == "lost(None)":
                    # the user asked for it: disconnect() released the protocol first
                    proto.transport = conn
                    w.call(proto.connection_lost, None)
                    exp = (0, 1, 0)
                elif how == "peer-close":
                    # the asyncio TCP transport delivers an orderly close by the peer (FIN) as
                    # connection_lost(None); the threaded readers report it through the watchdog /
                    # an error, and serial_asyncio only ever passes None after a user close
                    if kind != "async-tcp":
                        w.goal(how)
                        return
                    proto.transport = conn
                    gw.tasks.transport.protocol = proto  # still attached: not user-requested
                    w.call(proto.connection_lost, None)
                    exp = (0, 1, 1)
                elif how == "lost(exc)":
                    proto.transport = conn
                    w.call(proto.connection_lost, err)
                    exp = (0, 1, 1)
                else:
                    w.call(proto.connection_made, conn)
                    w.call(proto.connection_lost, err)
                    w.call(proto.connection_made, C.FakeConn("second"))
                    exp = (2, 1, 1)
            except Exception as exc:
                w.escaped(exc, f"{kind}: {how} raised")
            w.check(len(made) == exp[0], f"{kind}: on_conn_made called {len(made)}x for {how}")
            w.check(len(lost) == exp[1], f"{kind}: on_conn_lost called {len(lost)}x for {how}")
            w.check(len(reconnects) == exp[2],
                    f"{kind}: {len(reconnects)} reconnect attempt(s) for {how}, expected {exp[2]}")
            for args in lost:
                w.check(args[0] is gw and (args[1] is err or how in ("lost(None)", "peer-close")),
                        f"{kind}: on_conn_lost arguments")
            if ("lost" in how or how == "peer-close") and not how.endswith("made"):
                w.check(proto.transport is None, f"{kind}: connection kept after the loss")
            w.goal(how)
    return fn


def reconnect_chain(n):
    """(b') the real transports' loss handling over several losses in a row: every loss that
    comes with an error is followed by exactly one new dial - also the second and third one,
    after a reconnect that succeeded - and after stop() a late loss dials nothing."""
    def fn(w):
        kind = w.pick(["threaded", "async-serial", "async-tcp"], "transport")
        env = C.make_env(w)
        env.frozen = 0.0
        with env.installed():
            if kind == "async-tcp":
                gw = tcp_gateway(w, "async")
            else:
                gw = C.make_gateway(w, "2.2", "sync" if kind == "threaded" else "async",
                                    connected=False).gw
            tr = gw.tasks.transport
            proto = tr.protocol
            dials, made, lost = [], [], []
            tr._connect = C.Recorder(dials) if kind == "threaded" else C.AsyncRecorder(dials)
            gw.on_conn_made = C.Recorder2(made)
            gw.on_conn_lost = C.Recorder2(lost)
            w.info = {"transport": kind, "losses": n}
            ran = {"tasks": 0, "threads": 0}

            def settle():
                # the event loop / the connect thread gets to run
                while ran["tasks"] < len(env.loop.tasks):
                    t = env.loop.tasks[ran["tasks"]]
                    ran["tasks"] += 1
                    if not t.cancel_requested:
                        t.run()
                while ran["threads"] < len(env.threads):
                    t = env.threads[ran["threads"]]
                    ran["threads"] += 1
                    if t.started:
                        t.run_now()
            try:
                def armed():
                    return [h for h in env.loop.handles if not h.cancelled]
                for i in range(n):
                    w.call(proto.connection_made, C.FakeConn(f"conn{i}"))
                    if kind == "async-tcp":
                        w.call(gw.check_connection)  # async_connect arms the link watchdog
                        w.check(len(armed()) == 1, "async-tcp: link watchdog not armed once")
                    w.call(proto.connection_lost, OSError(f"link down {i}"))
                    settle()
                    if kind == "async-tcp":
                        w.check(len(armed()) == 0,
                                "async-tcp: the watchdog of a lost link keeps running")
                    w.check(len(lost) == i + 1, f"{kind}: on_conn_lost not called once per loss")
                    w.check(len(dials) == i + 1,
                            f"{kind}: loss #{i + 1} was followed by {len(dials) - i} reconnect "
                            "attempt(s), expected 1")
                w.check(len(made) == n, f"{kind}: on_conn_made not called once per connection")
                w.call(proto.connection_made, C.FakeConn("last"))
                if kind == "async-tcp":
                    w.call(gw.check_connection)
                r = w.call(gw.stop)
                if kind != "threaded":
                    w.run_coro(r)
                before = len(dials)
                w.call(proto.connection_lost, None)  # what the closed transport reports
                settle()
                if kind == "async-tcp":
                    w.check(len(armed()) == 0,
                            "async-tcp: the link watchdog keeps running after stop()")
                w.check(len(dials) == before, f"{kind}: a reconnect attempt after stop()")
            except Exception as exc:
                w.escaped(exc, f"{kind}: loss sequence raised")
            w.goal(kind)
    return fn


def stop_quiesces():
    """(d) after stop(): no writes, and a late connection-lost event reaches no device."""
    def fn(w):
        flavour = w.pick(["sync", "async"], "flavour")
        late = w.pick(["none", "lost(None)", "lost(exc)"], "late_event")
        env = C.make_env(w)
        with env.installed():
            g = C.make_gateway(w, "2.2", flavour)
            gw, tr = g.gw, g.gw.tasks.transport
            proto = tr.protocol
            dialled = []
            tr._connect = C.Recorder(dialled) if flavour == "sync" else C.AsyncRecorder(dialled)
            w.info = {"flavour": flavour, "late_event": late}
            try:
                r = w.call(gw.stop)
                if flavour == "async":
                    w.run_coro(r)
                w.check(g.conn.closed, "stop() did not close the connection")
                w.call(tr.send, "1;1;1;0;2;1\n")
                if late != "none":
                    w.call(proto.connection_lost, None if late == "lost(None)" else OSError("x"))
                    for t in env.loop.tasks:
                        t.run()
                    for t in env.threads:
                        if t.started:
                            t.run_now()
            except Exception as exc:
                w.escaped(exc, "stop sequence raised")
            w.check(len(g.conn.written) == 0, "command written after stop()")
            w.check(tr.protocol is None, "transport still holds a protocol after stop()")
            w.info["dialled"] = len(dialled)
            w.goal(late)
    return fn


def connect_loops():
    """(c) the connect loops retry every reconnect_timeout until a device opens, and the
    threaded loops give up as soon as the transport was disconnected."""
    def fn(w):
        from mysensors import gateway_serial, gateway_tcp
        which = w.pick(["serial-sync", "tcp-sync", "tcp-sync-timeout"], "loop")
        timeout_kind = which == "tcp-sync-timeout"
        which = "tcp-sync" if timeout_kind else which
        nfail = w.choose(4, "failures")
        disconnected = w.flag("disconnected_first")
        env = C.make_env(w)
        with env.installed():
            R = w.fresh_real("R", 0)
            attempts = []

            class Dev:
                __symex_native__ = True

                def __call__(self_, *a, **k):
                    attempts.append(1)
                    from symex.core import prog
                    import serial
                    import socket as _socket
                    raise prog(serial.SerialException("no device") if which == "serial-sync"
                               else _socket.timeout("timed out") if timeout_kind
                               else OSError("refused"))
            if which == "serial-sync":
                gw = w.new(gateway_serial.SerialGateway, "/dev/null0", reconnect_timeout=R)
                import serial
                env.add(serial.serial_for_url, lambda a, k: Dev()(), "serial.serial_for_url")
                loop = gateway_serial.sync_connect
            else:
                gw = tcp_gateway(w, "sync", R)
                import socket
                env.add(socket.create_connection, lambda a, k: Dev()(), "socket.create_connection")
                loop = gateway_tcp.sync_connect
            with env.installed():
                tr = gw.tasks.transport
                if disconnected:
                    w.call(tr.disconnect)
                budget = {"n": nfail}

                def sleeper(a, k):
                    env.sleeps.append(a[0])
                    budget["n"] -= 1
                    if budget["n"] <= 0:
                        tr.protocol = None  # the user stops the gateway while we wait
                    return None
                import time as _t
                env.add(_t.sleep, sleeper, "time.sleep")
                with env.installed():
                    w.info = {"loop": which, "failures": nfail, "disconnected_first": disconnected}
                    try:
                        w.call(loop, tr)
                    except Exception as exc:
                        w.escaped(exc, f"{which} connect loop raised")
            if disconnected:
                w.check(len(attempts) == 0, "connect attempted although the transport was stopped")
            else:
                w.check(len(attempts) == max(1, nfail), "wrong number of connect attempts")
                for s in env.sleeps:
                    w.check(w.eq(s, R), "retry delay is not reconnect_timeout")
            w.goal("looped")
    return fn


def tcp_reader():
    """(e) TCPTransport.run with a scripted socket: exactly one connection_made, then exactly one
    connection_lost carrying the first error (None after an orderly stop)."""
    def fn(w):
        from mysensors import gateway_tcp
        from symex.core import prog
        env = C.make_env(w)
        with env.installed():
            g = C.make_gateway(w, "2.2")
            gw = g.gw
            proto = gw.tasks.transport.protocol
            made, lost = [], []
            gw.on_conn_made = C.Recorder2(made)
            gw.on_conn_lost = C.Recorder2(lost)
            trouble = w.pick(["none", "made-callback-raises", "line-handler-raises"], "trouble")
            if trouble == "made-callback-raises":
                def bad_made(gateway):
                    made.append((gateway,))
                    exc = prog(C.UserCallbackError("on_conn_made failed"))
                    script["first_error"] = script["first_error"] or exc
                    raise exc
                bad_made.__symex_native__ = True
                gw.on_conn_made = bad_made
            if trouble == "line-handler-raises":
                def bad_job(*a):
                    exc = prog(C.UserCallbackError("queue full"))
                    script["first_error"] = script["first_error"] or exc
                    raise exc
                bad_job.__symex_native__ = True
                gw.tasks.add_job = bad_job
            reconnects = []
            proto.conn_lost_callback = C.Recorder0(reconnects)
            script = {"iter": 0, "first_error": None, "events": [], "checks": 0, "unchecked": 0}
            steps = 3

            class Sock:
                __symex_native__ = True

                def setblocking(self, flag):
                    pass

                def recv(self, n):
                    what = w.pick(["data", "eof", "error"], f"recv{script['iter']}")
                    script["events"].append(f"recv:{what}")
                    if what == "error":
                        exc = prog(OSError("recv failed"))
                        script["first_error"] = script["first_error"] or exc
                        raise exc
                    return b"0;255;3;0;2;2.0\n" if what == "data" else b""

                def sendall(self, data):
                    pass

                def close(self):
                    pass
            sock = Sock()

            def select_stub(a, k):
                what = w.pick(["readable", "idle", "exceptional", "raises"],
                              f"select{script['iter']}")
                script["events"].append(f"select:{what}")
                if what == "raises":
                    exc = prog(OSError("select failed"))
                    script["first_error"] = script["first_error"] or exc
                    raise exc
                if what == "exceptional":
                    return ([], [], [sock])
                return ([sock] if what == "readable" else [], [sock], [])
            import select as _select
            import time as _time
            env.add(_select.select, select_stub, "select.select")

            def check_conn():
                script["checks"] += 1
                what = w.pick(["ok", "watchdog"], f"check{script['iter']}")
                script["events"].append(f"check:{what}")
                if what == "watchdog":
                    exc = prog(OSError("no response"))
                    script["first_error"] = script["first_error"] or exc
                    raise exc
            check_conn.__symex_native__ = True
            holder = {}

            def sleeper(a, k):
                script["iter"] += 1
                if script["checks"] < script["iter"]:
                    script["unchecked"] += 1  # an iteration that did not poll the link watchdog
                if script["iter"] >= steps:
                    holder["t"].alive = False  # stop() from the user
                return None
            env.add(_time.sleep, sleeper, "time.sleep")
            with env.installed():
                factory = C.Factory(proto)
                t = w.new(gateway_tcp.TCPTransport, sock, factory, check_conn)
                holder["t"] = t
                w.info = {"script": script["events"]}
                try:
                    w.call(t.run)
                except Exception as exc:
                    w.escaped(exc, "TCPTransport.run raised")
            w.check(len(made) == 1, f"on_conn_made called {len(made)}x for one connection")
            w.check(len(lost) == 1, f"on_conn_lost called {len(lost)}x for one connection")
            # (how often it polls is the implementation's business; never polling is not)
            w.check(not (script["iter"] >= 2 and script["checks"] == 0),
                    "the reader loop went round without ever polling the link watchdog (a silent "
                    "link would never be dropped)")
            err = lost[0][1] if lost else None
            exceptional = any(e == "select:exceptional" for e in script["events"])
            if script["first_error"] is not None:
                w.check(err is script["first_error"], "connection_lost did not carry the first error")
            elif not exceptional:
                w.check(err is None, "connection_lost carried an error after an orderly stop")
                w.check(script["iter"] >= steps,
                        "the reader gave the connection up without an error although nobody asked "
                        "it to stop (a close by the peer must end in a loss that is re-dialled)")
            w.check(len(reconnects) == (1 if err is not None else 0),
                    "reconnect attempts do not match the loss (error => one attempt)")
            w.check(t.alive is False, "reader not shut down after the loss")
            w.goal("lost-with-error" if err is not None else "stopped")
    return fn


def async_watchdog_chain(polls):
    """(a') asyncio TCP gateway: check_connection re-arms itself after every poll with a delay of
    about reconnect_timeout, so a link that stays silent is dropped (closed + re-dialled) at the
    first poll later than 2 x reconnect_timeout after the last answer."""
    def fn(w):
        env = C.make_env(w)
        with env.installed():
            R = w.fresh_real("R", 0)
            w.assume_fast(w.lt(0, R))
            t0 = w.fresh_real("t0", 0)
            env.frozen = t0
            gw = tcp_gateway(w, "async", R)
            tr = gw.tasks.transport
            conn = C.FakeConn()
            tr.protocol.transport = conn
            redials = []
            tr.protocol.conn_lost_callback = C.Recorder0(redials)
            gw.tcp_check_timer = t0
            gw.tcp_disconnect_timer = t0
            w.info = {"R": R, "t0": t0, "polls": polls}
            now = t0
            try:
                w.call(gw.check_connection)  # what async_connect does after connecting
                limit = w.add(w.mul(3, R), 3)
                for i in range(polls):
                    if len(redials) > 0 or w.is_true(w.lt(limit, w.sub(now, t0))):
                        break
                    pending = [h for h in env.loop.handles if not h.cancelled and not
                               getattr(h, "fired", False)]
                    w.check(len(pending) >= 1,
                            f"after poll {i} the asyncio link watchdog is not armed any more")
                    w.check(len(pending) == 1,
                            f"after poll {i} the asyncio link watchdog is armed {len(pending)} times")
                    h = pending[0]
                    w.check(w.and_(w.lt(0, h.delay), w.le(h.delay, w.add(R, 1))),
                            "watchdog period is longer than about reconnect_timeout")
                    h.fired = True
                    now = w.add(now, h.delay)
                    env.frozen = now
                    w.call(h.fn, *h.args)
            except Exception as exc:
                w.escaped(exc, "asyncio watchdog raised")
            # a silent link: dropped by the first poll later than 2R, i.e. within 3 periods
            w.check(len(redials) == 1 and conn.closed,
                    "a silent link was not dropped and re-dialled by the asyncio watchdog")
            w.check(w.le(w.sub(now, t0), w.add(w.mul(3, R), 3)),
                    "silent link dropped much later than 2 x reconnect_timeout")
            w.goal("dropped")
    return fn


def serial_async_connect(w, env, nfail, cancel):
    """The asyncio *serial* connect loop with serial_asyncio.create_serial_connection replaced by
    a scripted coroutine function (fails nfail times with SerialException, then connects)."""
    import asyncio
    import serial
    import serial_asyncio
    from mysensors import gateway_serial
    from symex.core import prog
    from symex.env import Done
    attempts = []
    with env.installed():
        R = w.fresh_real("R", 0)
        w.assume_fast(w.lt(0, R))
        baud = w.fresh_int("baud", 1)
        gw = w.new(gateway_serial.AsyncSerialGateway, "/dev/ttyY", baud=baud, reconnect_timeout=R)
        tr = gw.tasks.transport
        made = []
        gw.on_conn_made = C.Recorder2(made)

        def create(a, k):
            attempts.append((list(a), dict(k)))
            if len(attempts) <= nfail:
                return Done(exc=prog(serial.SerialException("no device")))
            proto = w.call(a[1])
            conn = C.FakeConn()
            w.call(proto.connection_made, conn)
            return Done((conn, proto))
        env.add(serial_asyncio.create_serial_connection, create,
                "serial_asyncio.create_serial_connection")
        if cancel:
            env.cancel_sleep_at = nfail - 1
        w.info = {"link": "serial", "failures": nfail, "cancelled": cancel}
        ended = "connected"
        with env.installed():
            try:
                w.run_coro(w.call(tr.connect))
            except asyncio.CancelledError:
                ended = "cancelled"
            except Exception as exc:
                w.escaped(exc, "serial async_connect raised")
        w.check(ended == ("cancelled" if cancel else "connected"), f"connect loop ended as {ended}")
        for sl in env.async_sleeps:
            w.check(w.eq(sl, R), "retry delay is not reconnect_timeout")
        want = nfail if cancel else nfail + 1
        w.check(len(attempts) == want, f"{len(attempts)} connect attempts, expected {want}")
        for a, k in attempts:
            w.check(len(a) >= 4 and a[2] == "/dev/ttyY" and w.truth(w.eq(a[3], baud)),
                    "port / baud options do not reach the serial device")
        if not cancel:
            w.check(len(made) == 1 and tr.protocol.transport is not None,
                    "connection not established after the device opened")
        w.goal(ended)


def async_connect_loop():
    """(c') asyncio connect loops: retry every reconnect_timeout until a connection is made; a
    cancellation ends the loop."""
    def fn(w):
        import asyncio
        from mysensors import gateway_tcp
        from symex.core import prog
        from symex.env import Done
        link = w.pick(["tcp", "serial"], "link")
        nfail = w.choose(3, "failures")
        kind = (w.pick(["oserror", "timeout"], "failure_kind") if link == "tcp" else
                "serial-exception") if nfail else "none"
        cancel = w.flag("cancelled_while_waiting") if nfail else False
        env = C.make_env(w)
        if link == "serial":
            return serial_async_connect(w, env, nfail, cancel)
        with env.installed():
            R = w.fresh_real("R", 0)
            w.assume_fast(w.lt(0, R))
            t0 = w.fresh_real("t0", 0)
            env.frozen = t0
            gw = tcp_gateway(w, "async", R)
            tr = gw.tasks.transport
            attempts = []
            t1 = w.fresh_real("t_connected", 0)
            w.assume_fast(w.lt(w.add(t0, w.mul(3, R)), t1))  # the link comes up much later
            env.frozen = t1

            def create_connection(factory, args, kwargs):
                attempts.append(args)
                if len(attempts) <= nfail:
                    exc = OSError("refused") if kind == "oserror" else asyncio.TimeoutError()
                    return Done(exc=prog(exc))
                proto = factory()
                conn = C.FakeConn()
                w.call(proto.connection_made, conn)
                return Done((conn, proto))
            env.create_connection = create_connection
            if cancel:
                env.cancel_sleep_at = nfail - 1
            w.info = {"failures": nfail, "kind": kind, "cancelled": cancel}
            ended = "connected"
            try:
                w.run_coro(w.call(tr.connect))
            except asyncio.CancelledError:
                ended = "cancelled"
            except Exception as exc:
                w.escaped(exc, "async_connect raised")
            w.check(ended == ("cancelled" if cancel else "connected"),
                    f"connect loop ended as {ended}")
            for sl in env.async_sleeps:
                w.check(w.eq(sl, R), "retry delay is not reconnect_timeout")
            want = nfail if cancel else nfail + 1
            w.check(len(attempts) == want, f"{len(attempts)} connect attempts, expected {want}")
            if not cancel:
                w.check(len(env.loop.handles) == 1, "watchdog not armed after connecting")
                w.check(w.and_(w.eq(gw.tcp_check_timer, t1), w.eq(gw.tcp_disconnect_timer, t1)),
                        "watchdog timers not restarted when the connection was established")
                w.check(tr.protocol.transport is not None, "fresh link dropped right after "
                                                           "connection_made")
            w.goal(ended)
    return fn


def tcp_connect_success():
    """(c'') threaded TCP connect: after failed dials the link comes up; both watchdog timers
    restart at that moment and the reader is started."""
    def fn(w):
        import socket
        import threading
        from mysensors import gateway_tcp
        from symex.core import prog
        nfail = w.choose(3, "failures")
        env = C.make_env(w)
        with env.installed():
            R = w.fresh_real("R", 0)
            w.assume_fast(w.lt(0, R))
            t0 = w.fresh_real("t0", 0)
            env.frozen = t0
            gw = tcp_gateway(w, "sync", R)
            tr = gw.tasks.transport
            attempts, started = [], []
            t1 = w.fresh_real("t_connected", 0)
            w.assume_fast(w.lt(w.add(t0, w.mul(3, R)), t1))

            class Sock:
                __symex_native__ = True

                def setblocking(self, flag):
                    pass

            def dial(a, k):
                attempts.append(a)
                if len(attempts) <= nfail:
                    raise prog(OSError("refused"))
                env.frozen = t1
                return Sock()
            env.add(socket.create_connection, dial, "socket.create_connection")
            env.add(_RealThread.start, lambda a, k: started.append(a[0]),
                    "mysensors.gateway_tcp.TCPTransport.start")
            env.add(gateway_tcp.serial.threaded.ReaderThread.connect, lambda a, k: None,
                    "mysensors.gateway_tcp.TCPTransport.connect")
            with env.installed():
                w.info = {"failures": nfail}
                try:
                    w.call(gateway_tcp.sync_connect, tr)
                except Exception as exc:
                    w.escaped(exc, "sync_connect raised")
            w.check(len(attempts) == nfail + 1, "wrong number of connect attempts")
            w.check(len(started) == 1, "reader thread not started exactly once")
            for sl in env.sleeps:
                w.check(w.eq(sl, R), "retry delay is not reconnect_timeout")
            w.check(w.and_(w.eq(gw.tcp_check_timer, t1), w.eq(gw.tcp_disconnect_timer, t1)),
                    "watchdog timers not restarted when the connection was established")
            # the first watchdog poll on the fresh link must not drop it
            env.frozen = w.add(t1, w.fresh_real("dt", 0))
            w.assume_fast(w.le(w.sub(env.frozen, t1), R))
            try:
                w.call(gw.check_connection)
            except OSError:
                w.fail("fresh link dropped by the first watchdog poll")
            w.goal("connected")
    return fn


def serial_connect_success():
    """(c3) threaded serial connect: after failed opens the device opens; exactly one reader
    thread is created for it with the gateway's protocol, and it is started."""
    def fn(w):
        import serial
        import serial.threaded
        from mysensors import gateway_serial
        from symex.core import prog
        nfail = w.choose(3, "failures")
        env = C.make_env(w)
        with env.installed():
            R = w.fresh_real("R", 0)
            w.assume_fast(w.lt(0, R))
            gw = w.new(gateway_serial.SerialGateway, "/dev/ttyZ", reconnect_timeout=R)
            tr = gw.tasks.transport
            attempts, readers = [], []

            class Port:
                __symex_native__ = True
                __symex_opaque__ = True

            class Reader:
                __symex_native__ = True
                __symex_opaque__ = True

                def __init__(self, ser, factory):
                    self.ser, self.factory = ser, factory
                    self.daemon = True
                    self.calls = []
                    readers.append(self)

                def start(self):
                    self.calls.append("start")

                def connect(self):
                    self.calls.append("connect")
            port = Port()

            def open_port(a, k):
                attempts.append(a)
                if len(attempts) <= nfail:
                    raise prog(serial.SerialException("no device"))
                return port
            env.add(serial.serial_for_url, open_port, "serial.serial_for_url")
            env.add(serial.threaded.ReaderThread, lambda a, k: Reader(a[0], a[1]),
                    "serial.threaded.ReaderThread")
            with env.installed():
                w.info = {"failures": nfail}
                try:
                    w.call(gateway_serial.sync_connect, tr)
                except Exception as exc:
                    w.escaped(exc, "serial sync_connect raised")
            w.check(len(attempts) == nfail + 1, "wrong number of connect attempts")
            for sl in env.sleeps:
                w.check(w.eq(sl, R), "retry delay is not reconnect_timeout")
            w.check(len(readers) == 1, f"{len(readers)} reader threads for one opened device")
            r = readers[0]
            w.check(r.ser is port, "the reader does not read the device that was opened")
            w.check(w.call(r.factory) is tr.protocol, "the reader does not feed the gateway's protocol")
            w.check(r.calls[:1] == ["start"], "the reader thread was not started")
            w.goal("connected")
    return fn


def build(tier):
    hs = [
        Harness("watchdog-R-2eps", watchdog("R-2e"),
                {"events": K, "clock": "symbolic instants; no-op polls are skipped: the next "
                 "effective poll falls in (threshold, threshold + eps]",
                 "R, eps": "symbolic, 0 < 4*eps < R", "answers": "symbolic per poll"},
                goals=["alive", "dropped"],
                doc="answered within R - 2*eps => never dropped; silent => dropped by 2R + eps"),
        Harness("watchdog-R", watchdog("R"),
                {"polls": K, "latency_bound": "R (the statement as written)"},
                goals=["alive", "dropped"], doc="answered within R => never dropped"),
        Harness("async-watchdog-chain", async_watchdog_chain(40),
                {"polls": "until the link is dropped or 3R + 3 s have passed (<= 40)", "R": "symbolic > 0", "link": "silent"}, goals=["dropped"],
                doc="asyncio TCP watchdog re-arms itself; silent link dropped and re-dialled"),
        Harness("events", events(), {"protocols": sorted(protocol_classes())},
                goals=["made", "lost(None)", "lost(exc)", "made+lost(exc)+made", "peer-close"],
                doc="callbacks exactly once per connection event; reconnect on error"),
        Harness("reconnect-chain", reconnect_chain(3),
                {"losses_in_a_row": 3, "transports": ["threaded", "async-serial", "async-tcp"],
                 "then": "stop() and a late loss"},
                goals=["threaded", "async-serial", "async-tcp"],
                doc="real Transport loss handling: one new dial per loss, none after stop()"),
        Harness("stop-quiesces", stop_quiesces(), {"flavours": ["sync", "async"]},
                goals=["none", "lost(None)", "lost(exc)"],
                doc="after stop(): nothing written, protocol released"),
        Harness("connect-loops", connect_loops(), {"failures": "0..3", "loops": "threaded serial/tcp"},
                goals=["looped"], doc="retry every reconnect_timeout; stop when disconnected"),
        Harness("tcp-connect-success", tcp_connect_success(), {"failures": "0..2"},
                goals=["connected"],
                doc="sync_connect (TCP): link up after failures; timers restarted; reader started"),
        Harness("serial-connect-success", serial_connect_success(), {"failures": "0..2"},
                goals=["connected"],
                doc="threaded serial sync_connect: retries, then one started reader on the device"),
        Harness("async-connect-loop", async_connect_loop(),
                {"failures": "0..2 (OSError | TimeoutError | SerialException)", "cancel": "while "
                 "waiting", "links": ["tcp (loop.create_connection)", "serial "
                                      "(serial_asyncio.create_serial_connection scripted)"]},
                goals=["connected", "cancelled"],
                doc="async_connect (TCP and serial): retries, delay, cancellation, watchdog armed"),
        Harness("tcp-reader", tcp_reader(),
                {"iterations": 3, "select": ["readable", "idle", "exceptional", "raises"],
                 "recv": ["data", "eof", "error"], "watchdog": ["ok", "raises"]},
                goals=["lost-with-error", "stopped"],
                doc="TCPTransport.run with a scripted socket: one made, one lost(first error)"),
    ]
    return {
        "harnesses": hs,
        "level_text": "symbolic execution of check_connection/_handle_i_version on a symbolic "
                      "clock (linear real arithmetic over poll instants, reconnect timeout and "
                      "polling period), of the protocol classes' connection callbacks, of stop() "
                      "and of the threaded connect loops with scripted device factories",
        "assumptions": ["poll instants are non-decreasing with gaps <= eps and 4*eps < R",
                        "device factories / sockets are scripted fakes"],
        "outside": ["pyserial ReaderThread internals, serial_asyncio, the real asyncio loop, real "
                    "sockets", "exactly-once across truly concurrent threads (C16)",
                    "the asyncio serial connect loop (serial_asyncio)"],
        "stubs": ["time.time -> symbolic clock", "time.sleep recorded", "asyncio loop model"],
    }
