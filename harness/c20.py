"""C20 - connections are supervised and the callbacks are exact."""
from symex.run import Harness

from . import common as C

K = 6  # poll iterations in the watchdog harness


def tcp_gateway(w, flavour="sync", R=None):
    from mysensors import gateway_tcp
    cls = gateway_tcp.TCPGateway if flavour == "sync" else gateway_tcp.AsyncTCPGateway
    kw = {}
    if R is not None:
        kw["reconnect_timeout"] = R
    gw = w.new(cls, "127.0.0.1", **kw)
    return gw


def watchdog(lmax_kind):
    """(a) check_connection / _handle_i_version on a symbolic clock.

    lmax_kind 'R': every probe answered within R  => never dropped   (the statement)
              'R-2e': every probe answered within R - 2*eps => never dropped (what holds)
    plus: as long as no drop happened, now <= last answer + 2R (so a silent link is dropped at
    the first poll after 2R, i.e. within 2R + eps)."""
    def fn(w):
        env = C.make_env(w)
        with env.installed():
            R = w.fresh_real("R", 0)
            eps = w.fresh_real("eps", 0)
            w.assume_fast(w.lt(0, R))
            w.assume_fast(w.lt(0, eps))
            w.assume_fast(w.lt(w.mul(4, eps), R))  # polling period well below the timeout
            env.frozen = w.fresh_real("t0", 0)
            gw = tcp_gateway(w, "sync", R)
            t0 = gw.tcp_disconnect_timer
            lmax = R if lmax_kind == "R" else w.sub(R, w.mul(2, eps))
            probes = []  # times at which a probe was sent
            answers = []  # times at which an answer was processed
            last_reset = t0
            prev = t0
            w.info = {"R": R, "eps": eps, "latency_bound": lmax_kind, "t0": t0}
            dropped_at = None

            def threshold():
                # the next poll that does anything is the first one later than this instant;
                # polls come at least every eps, so it happens in (thr, thr + eps]
                a_ = w.add(gw.tcp_check_timer, R)
                b_ = w.add(gw.tcp_disconnect_timer, w.mul(2, R))
                return w.ite(w.lt(a_, b_), a_, b_)
            for i in range(K):
                thr = threshold()
                now = w.fresh_real(f"event{i}", 0)
                w.assume_fast(w.le(prev, now))
                w.assume_fast(w.le(now, w.add(thr, eps)))
                env.frozen = now
                if w.flag(f"event{i}_is_answer"):
                    try:
                        w.call(gw._handle_i_version, None)
                    except Exception as exc:
                        w.escaped(exc, "_handle_i_version raised")
                    answers.append(now)
                    last_reset = now
                    prev = now
                    continue
                w.assume_fast(w.lt(thr, now))  # an effective poll (earlier polls are no-ops)
                nq = len(gw.tasks.queue)
                try:
                    w.call(gw.check_connection)
                except OSError:
                    dropped_at = now
                    break
                except Exception as exc:
                    w.escaped(exc, "check_connection raised something other than OSError")
                prev = now
                if len(gw.tasks.queue) > nq:
                    probes.append(now)
                    w.goal("probe")
                else:
                    w.fail("a poll later than check_timer + R / disconnect_timer + 2R did nothing")
                w.check(w.le(now, w.add(last_reset, w.add(w.mul(2, R), eps))),
                        "link not dropped although 2 x reconnect_timeout passed without an answer")
            w.info.update({"probes": probes, "answers": answers, "dropped_at": dropped_at})
            if dropped_at is None:
                w.goal("alive")
                return
            w.goal("dropped")
            # premise: every probe whose deadline has passed was answered within lmax
            premise = []
            for s in probes:
                deadline = w.add(s, lmax)
                answered = w.or_(*[w.and_(w.le(s, a), w.le(a, deadline)) for a in answers])
                premise.append(w.or_(answered, w.lt(dropped_at, deadline)))
            w.check(w.not_(w.and_(*premise)) if premise else False,
                    f"link dropped although every probe was answered within {lmax_kind}")
    return fn


def protocol_classes():
    from mysensors import gateway_tcp, transport
    return {"threaded": transport.BaseMySensorsProtocol,
            "async-serial": transport.AsyncMySensorsProtocol,
            "async-tcp": gateway_tcp.AsyncTCPMySensorsProtocol}


def events():
    """(b) connection_made / connection_lost: callbacks exactly once per event; a reconnect
    attempt follows every loss that comes with an error."""
    def fn(w):
        kind = w.pick(sorted(protocol_classes()), "protocol")
        how = w.pick(["made", "lost(None)", "lost(exc)", "made+lost(exc)+made"], "events")
        env = C.make_env(w)
        with env.installed():
            made, lost, reconnects = [], [], []
            if kind == "async-tcp":
                gw = tcp_gateway(w, "async")
            else:
                gw = C.make_gateway(w, "2.2", "sync" if kind == "threaded" else "async").gw
            gw.on_conn_made = C.Recorder2(made)
            gw.on_conn_lost = C.Recorder2(lost)
            proto = w.new(protocol_classes()[kind], gw, C.Recorder0(reconnects))
            conn = C.FakeConn()
            w.info = {"protocol": kind, "events": how}
            err = OSError("link down")
            try:
                if how == "made":
                    w.call(proto.connection_made, conn)
                    exp = (1, 0, 0)
                elif how == "lost(None)":
                    proto.transport = conn
                    w.call(proto.connection_lost, None)
                    exp = (0, 1, 0)
                elif how == "lost(exc)":
                    proto.transport = conn
                    w.call(proto.connection_lost, err)
                    exp = (0, 1, 1)
                else:
                    w.call(proto.connection_made, conn)
                    w.call(proto.connection_lost, err)
                    w.call(proto.connection_made, C.FakeConn("second"))
                    exp = (2, 1, 1)
            except Exception as exc:
                w.escaped(exc, f"{kind}: {how} raised")
            w.check(len(made) == exp[0], f"{kind}: on_conn_made called {len(made)}x for {how}")
            w.check(len(lost) == exp[1], f"{kind}: on_conn_lost called {len(lost)}x for {how}")
            w.check(len(reconnects) == exp[2],
                    f"{kind}: {len(reconnects)} reconnect attempt(s) for {how}")
            for args in lost:
                w.check(args[0] is gw and (args[1] is err or how == "lost(None)"),
                        f"{kind}: on_conn_lost arguments")
            if "lost" in how and not how.endswith("made"):
                w.check(proto.transport is None, f"{kind}: connection kept after the loss")
            w.goal(how)
    return fn


def stop_quiesces():
    """(d) after stop(): no writes, and a late connection-lost event reaches no device."""
    def fn(w):
        flavour = w.pick(["sync", "async"], "flavour")
        late = w.pick(["none", "lost(None)", "lost(exc)"], "late_event")
        env = C.make_env(w)
        with env.installed():
            g = C.make_gateway(w, "2.2", flavour)
            gw, tr = g.gw, g.gw.tasks.transport
            proto = tr.protocol
            dialled = []
            tr._connect = C.Recorder(dialled) if flavour == "sync" else C.AsyncRecorder(dialled)
            w.info = {"flavour": flavour, "late_event": late}
            try:
                r = w.call(gw.stop)
                if flavour == "async":
                    w.run_coro(r)
                w.check(g.conn.closed, "stop() did not close the connection")
                w.call(tr.send, "1;1;1;0;2;1\n")
                if late != "none":
                    w.call(proto.connection_lost, None if late == "lost(None)" else OSError("x"))
                    for t in env.loop.tasks:
                        t.run()
                    for t in env.threads:
                        if t.started:
                            t.run_now()
            except Exception as exc:
                w.escaped(exc, "stop sequence raised")
            w.check(len(g.conn.written) == 0, "command written after stop()")
            w.check(tr.protocol is None, "transport still holds a protocol after stop()")
            w.info["dialled"] = len(dialled)
            w.goal(late)
    return fn


def connect_loops():
    """(c) the connect loops retry every reconnect_timeout until a device opens, and the
    threaded loops give up as soon as the transport was disconnected."""
    def fn(w):
        from mysensors import gateway_serial, gateway_tcp
        which = w.pick(["serial-sync", "tcp-sync"], "loop")
        nfail = w.choose(4, "failures")
        disconnected = w.flag("disconnected_first")
        env = C.make_env(w)
        with env.installed():
            R = w.fresh_real("R", 0)
            attempts = []

            class Dev:
                __symex_native__ = True

                def __call__(self_, *a, **k):
                    attempts.append(1)
                    from symex.core import prog
                    import serial
                    raise prog(serial.SerialException("no device") if which == "serial-sync"
                               else OSError("refused"))
            if which == "serial-sync":
                gw = w.new(gateway_serial.SerialGateway, "/dev/null0", reconnect_timeout=R)
                import serial
                env.add(serial.serial_for_url, lambda a, k: Dev()(), "serial.serial_for_url")
                loop = gateway_serial.sync_connect
            else:
                gw = tcp_gateway(w, "sync", R)
                import socket
                env.add(socket.create_connection, lambda a, k: Dev()(), "socket.create_connection")
                loop = gateway_tcp.sync_connect
            with env.installed():
                tr = gw.tasks.transport
                if disconnected:
                    w.call(tr.disconnect)
                budget = {"n": nfail}

                def sleeper(a, k):
                    env.sleeps.append(a[0])
                    budget["n"] -= 1
                    if budget["n"] <= 0:
                        tr.protocol = None  # the user stops the gateway while we wait
                    return None
                import time as _t
                env.add(_t.sleep, sleeper, "time.sleep")
                with env.installed():
                    w.info = {"loop": which, "failures": nfail, "disconnected_first": disconnected}
                    try:
                        w.call(loop, tr)
                    except Exception as exc:
                        w.escaped(exc, f"{which} connect loop raised")
            if disconnected:
                w.check(len(attempts) == 0, "connect attempted although the transport was stopped")
            else:
                w.check(len(attempts) == max(1, nfail), "wrong number of connect attempts")
                for s in env.sleeps:
                    w.check(w.eq(s, R), "retry delay is not reconnect_timeout")
            w.goal("looped")
    return fn


def build(tier):
    hs = [
        Harness("watchdog-R-2eps", watchdog("R-2e"),
                {"events": K, "clock": "symbolic instants; no-op polls are skipped: the next "
                 "effective poll falls in (threshold, threshold + eps]",
                 "R, eps": "symbolic, 0 < 4*eps < R", "answers": "symbolic per poll"},
                goals=["alive", "dropped"],
                doc="answered within R - 2*eps => never dropped; silent => dropped by 2R + eps"),
        Harness("watchdog-R", watchdog("R"),
                {"polls": K, "latency_bound": "R (the statement as written)"},
                goals=["alive", "dropped"], doc="answered within R => never dropped"),
        Harness("events", events(), {"protocols": sorted(protocol_classes())},
                goals=["made", "lost(None)", "lost(exc)", "made+lost(exc)+made"],
                doc="callbacks exactly once per connection event; reconnect on error"),
        Harness("stop-quiesces", stop_quiesces(), {"flavours": ["sync", "async"]},
                goals=["none", "lost(None)", "lost(exc)"],
                doc="after stop(): nothing written, protocol released"),
        Harness("connect-loops", connect_loops(), {"failures": "0..3", "loops": "threaded serial/tcp"},
                goals=["looped"], doc="retry every reconnect_timeout; stop when disconnected"),
    ]
    return {
        "harnesses": hs,
        "level_text": "symbolic execution of check_connection/_handle_i_version on a symbolic "
                      "clock (linear real arithmetic over poll instants, reconnect timeout and "
                      "polling period), of the protocol classes' connection callbacks, of stop() "
                      "and of the threaded connect loops with scripted device factories",
        "assumptions": ["poll instants are non-decreasing with gaps <= eps and 4*eps < R",
                        "device factories / sockets are scripted fakes"],
        "outside": ["pyserial ReaderThread internals, serial_asyncio, the real asyncio loop, real "
                    "sockets", "exactly-once across truly concurrent threads (C16)",
                    "asyncio connect loops and TCPTransport.run (not encoded in this build)"],
        "stubs": ["time.time -> symbolic clock", "time.sleep recorded", "asyncio loop model"],
    }
