"""C10 - OTA sessions are gated, restartable and terminate."""
from symex.run import Harness

from . import common as C
from . import stepref


def only_stream(w, version, ints):
    return w.eq(ints[2], 4)


def unprescribed(w, ref, msg):
    """Block requests whose outcome the statement does not fix: for an existing firmware other
    than the one scheduled for the node, or for a block index beyond the image."""
    from verifspec import refmodel as R
    node, child, command, ack, sub, payload = msg
    if not w.is_true(w.eq(sub, 2)):
        return False
    words = w.call(R.hex_words, payload, 3)
    if words is None:
        return False
    ota = ref["ota"]
    out = []
    for store in ("unstarted", "started"):
        for nid, fw_id in ota[store].items():
            mine = w.eq(nid, node)
            other_fw = w.not_(w.and_(w.eq(words[0], fw_id[0]), w.eq(words[1], fw_id[1])))
            fware = ota["firmware"].get(fw_id)
            beyond = w.le(fware["blocks"], words[2]) if fware is not None else False
            out.append(w.and_(mine, w.or_(other_fw, beyond)))
    return w.or_(*out) if out else False


def update_call(versions):
    """update_fw call forms against the reference: only known nodes are scheduled, any earlier
    session of theirs restarts from the config step, reboot is requested."""
    def fn(w):
        version = w.pick(versions, "version")
        form = w.pick(["single", "list", "unknown", "no-firmware", "bad-type", "same-firmware"],
                      "form")
        flavour = w.pick(["sync", "async"], "flavour")
        env = C.make_env(w)
        image = bytes(range(9, 109))
        env.add_load_fw(image)
        with env.installed():
            g = C.make_gateway(w, version, flavour)
            ids = C.gen_network(w, g, ["awake1", "bare"])
            old = C.gen_ota(w, g, ids, w.pick(["none", "requested", "unstarted", "started"],
                                              "earlier_session"))
            ota = g.gw.tasks.ota
            ft = w.fresh_int("fw_type", 0, 65535)
            fv = w.fresh_int("fw_ver", 0, 65535)
            path = "fw.hex"
            if form == "single":
                nids = ids[0]
            elif form == "list":
                nids = [ids[0], ids[1]]
            elif form == "unknown":
                other = w.fresh_int("unknown_id", 0, 255)
                w.assume_fast(w.and_(w.ne(other, ids[0]), w.ne(other, ids[1])))
                nids = [other, ids[1]]
            elif form == "no-firmware":
                nids, path = ids[0], None
                if old is not None:
                    w.assume_fast(w.not_(w.and_(w.eq(ft, old[0]), w.eq(fv, old[1]))))
            elif form == "bad-type":
                nids, ft = ids[0], "a"
            else:
                nids, path = ids[0], None
                if old is None:
                    return
                ft, fv = old
            before = stepref.project(g.gw)
            w.info = {"version": version, "form": form, "flavour": flavour}
            try:
                r = w.call(g.gw.update_fw, nids, ft, fv, fw_path=path)
                if flavour == "async":
                    w.run_coro(r)
            except Exception as exc:
                w.escaped(exc, f"update_fw raised[{form}]")
            after = stepref.project(g.gw)
            scheduled = {"single": [ids[0]], "list": [ids[0], ids[1]], "unknown": [ids[1]],
                         "no-firmware": [], "bad-type": [], "same-firmware": [ids[0]]}[form]
            for nid in ids:
                node_b, node_a = before["nodes"][nid], after["nodes"][nid]
                if any(nid is s for s in scheduled):
                    w.check(w.eq(after["ota"]["requested"].get(nid), (ft, fv)),
                            f"scheduled node not in the requested store[{form}]")
                    w.check(nid not in after["ota"]["unstarted"] and
                            nid not in after["ota"]["started"],
                            f"earlier session of a rescheduled node not restarted[{form}]")
                    w.check(node_a["reboot"] is True, f"reboot not requested[{form}]")
                else:
                    for store in ("requested", "unstarted", "started"):
                        w.check(w.eq(after["ota"][store].get(nid), before["ota"][store].get(nid)),
                                f"session of an unscheduled node changed[{form}]")
                    w.check(w.eq(node_a["reboot"], node_b["reboot"]),
                            f"reboot flag of an unscheduled node changed[{form}]")
            for store in ("requested", "unstarted", "started"):
                for k in after["ota"][store]:
                    w.check(w.or_(*[w.eq(k, nid) for nid in ids]),
                            f"unknown node id entered a session store[{form}]")
            w.check(len(C.emissions(g)) == 0, "update_fw emitted a command")
            w.goal(form)
    return fn


def build(tier):
    q = tier == "quick"
    versions = ["1.4", "2.2"] if q else C.VERSIONS
    shapes = [["awake1", "bare"]] if q else [["awake1", "bare"], ["sleep", "awake1"]]
    session = stepref.step(versions, shapes, 0, [("sync", "serial")], {"state", "reply"},
                           only=only_stream, hexshapes=True,
                           ota_modes=("requested", "unstarted", "started", "none", "fixed"),
                           unprescribed=unprescribed)
    hs = [
        Harness("session-step", session,
                {"command": "stream (4), every sub-type", "payload": "hex-shaped, lengths "
                 + str(C.HEX_LENGTHS), "session_of_first_node": ["requested", "unstarted", "started",
                                                                "none"], "shapes": shapes},
                goals=["accepted", "rejected"],
                doc="firmware requests vs the session automaton (reply-or-none, stores)"),
        Harness("update-call", update_call(versions),
                {"forms": ["single", "list", "unknown", "no-firmware", "bad-type", "same-firmware"],
                 "earlier_session": ["none", "requested", "unstarted", "started"]},
                goals=["single", "list", "unknown", "no-firmware", "bad-type", "same-firmware"],
                doc="update_fw call forms: who is scheduled, restart, reboot flag"),
    ]
    return {
        "harnesses": hs,
        "level_text": "inductive one-step equivalence of respond_fw_config/respond_fw/_get_fw and "
                      "make_update with the reference session automaton (requested -> offered -> "
                      "fetching), for symbolic hex payloads, node ids, firmware ids and stores",
        "assumptions": ["a block request for a firmware other than the one scheduled for the node, "
                        "and a block index beyond the image, are not prescribed by the statement: "
                        "for those inputs only 'the pump does not raise' is checked",
                        "set -> reboot request and presentation -> reboot cleared are part of the "
                        "C04/C05 reference"],
        "outside": ["Intel-HEX loading (stubbed load_fw)", "more than two nodes / one image"],
        "stubs": ["load_fw -> fixed 100-byte image"],
    }
