"""C10 - OTA sessions are gated, restartable and terminate."""
from symex.run import Harness

from . import common as C
from . import stepref


def only_stream(w, version, ints):
    return w.eq(ints[2], 4)


def unprescribed(w, ref, msg):
    """Block requests whose outcome the statement does not fix: for an existing firmware other
    than the one scheduled for the node, or for a block index beyond the image."""
    from verifspec import refmodel as R
    node, child, command, ack, sub, payload = msg
    if not w.is_true(w.eq(sub, 2)):
        return False
    words = w.call(R.hex_words, payload, 3)
    if words is None:
        return False
    ota = ref["ota"]
    out = []
    for store in ("unstarted", "started"):
        for nid, fw_id in ota[store].items():
            mine = w.eq(nid, node)
            other_fw = w.not_(w.and_(w.eq(words[0], fw_id[0]), w.eq(words[1], fw_id[1])))
            fware = ota["firmware"].get(fw_id)
            beyond = w.le(fware["blocks"], words[2]) if fware is not None else False
            out.append(w.and_(mine, w.or_(other_fw, beyond)))
    return w.or_(*out) if out else False


def update_call(versions):
    """update_fw call forms against the reference: only known nodes are scheduled, any earlier
    session of theirs restarts from the config step, reboot is requested."""
    def fn(w):
        version = w.pick(versions, "version")
        form = w.pick(["single", "list", "unknown", "no-firmware", "bad-type", "same-firmware"],
                      "form")
        flavour = w.pick(["sync", "async"], "flavour")
        env = C.make_env(w)
        image = bytes(range(9, 109))
        env.add_load_fw(image)
        with env.installed():
            g = C.make_gateway(w, version, flavour)
            ids = C.gen_network(w, g, ["awake1", "bare"])
            old = C.gen_ota(w, g, ids, w.pick(["none", "requested", "unstarted", "started"],
                                              "earlier_session"))
            ota = g.gw.tasks.ota
            ft = w.fresh_int("fw_type", 0, 65535)
            fv = w.fresh_int("fw_ver", 0, 65535)
            path = "fw.hex"
            if form == "single":
                nids = ids[0]
            elif form == "list":
                nids = [ids[0], ids[1]]
            elif form == "unknown":
                other = w.fresh_int("unknown_id", 0, 255)
                w.assume_fast(w.and_(w.ne(other, ids[0]), w.ne(other, ids[1])))
                nids = [other, ids[1]]
            elif form == "no-firmware":
                nids, path = ids[0], None
                if old is not None:
                    w.assume_fast(w.not_(w.and_(w.eq(ft, old[0]), w.eq(fv, old[1]))))
            elif form == "bad-type":
                nids, ft = ids[0], "a"
            else:
                nids, path = ids[0], None
                if old is None:
                    return
                ft, fv = old
            before = stepref.project(g.gw)
            w.info = {"version": version, "form": form, "flavour": flavour}
            try:
                r = w.call(g.gw.update_fw, nids, ft, fv, fw_path=path)
                if flavour == "async":
                    w.run_coro(r)
            except Exception as exc:
                w.escaped(exc, f"update_fw raised[{form}]")
            after = stepref.project(g.gw)
            scheduled = {"single": [ids[0]], "list": [ids[0], ids[1]], "unknown": [ids[1]],
                         "no-firmware": [], "bad-type": [], "same-firmware": [ids[0]]}[form]
            for nid in ids:
                node_b, node_a = before["nodes"][nid], after["nodes"][nid]
                if any(nid is s for s in scheduled):
                    w.check(w.eq(after["ota"]["requested"].get(nid), (ft, fv)),
                            f"scheduled node not in the requested store[{form}]")
                    w.check(nid not in after["ota"]["unstarted"] and
                            nid not in after["ota"]["started"],
                            f"earlier session of a rescheduled node not restarted[{form}]")
                    w.check(node_a["reboot"] is True, f"reboot not requested[{form}]")
                else:
                    for store in ("requested", "unstarted", "started"):
                        w.check(w.eq(after["ota"][store].get(nid), before["ota"][store].get(nid)),
                                f"session of an unscheduled node changed[{form}]")
                    w.check(w.eq(node_a["reboot"], node_b["reboot"]),
                            f"reboot flag of an unscheduled node changed[{form}]")
            for store in ("requested", "unstarted", "started"):
                for k in after["ota"][store]:
                    w.check(w.or_(*[w.eq(k, nid) for nid in ids]),
                            f"unknown node id entered a session store[{form}]")
            w.check(len(C.emissions(g)) == 0, "update_fw emitted a command")
            w.goal(form)
    return fn


OTA_KINDS = ["update_fw", "config-request", "block-request", "set", "node-presentation"]


def ota_history(versions, k):
    """Bounded OTA histories through the public API from a gateway that knows two nodes (one
    with a child): update calls, config / block requests, set messages and node presentations in
    any order, the reference automaton run alongside; emissions and session state compared after
    every event."""
    def fn(w):
        from mysensors import ota as ota_mod
        from mysensors.message import Message
        from verifspec import refmodel as R
        version = w.pick(versions, "version")
        env = C.make_env(w)
        image = bytes(range(9, 109))
        env.add_load_fw(image)
        with env.installed():
            g = C.make_gateway(w, version)
            ids = C.gen_network(w, g, ["awake1", "bare"])
            fware = ota_mod.prepare_fw(image)
            fw_id = (w.fresh_int("fw_type", 0, 65535), w.fresh_int("fw_ver", 0, 65535))
            ref = stepref.project(g.gw)
            local_time = env.timegm([env.local], {})
            w.info = {"version": version, "events": []}
            child = list(g.gw.sensors[ids[0]].children.keys())[0]
            vt = list(g.gw.sensors[ids[0]].children[child].values.keys())[0]
            for i in range(k):
                kind = w.pick(OTA_KINDS, f"event{i}")
                node = w.pick([ids[0], ids[1]], f"e{i}.node")
                del g.conn.written[:]
                if kind == "update_fw":
                    w.info["events"].append(["update_fw", node])
                    w.call(R.ref_update_fw, ref, [node], fw_id, fware)
                    expected = []
                    try:
                        w.call(g.gw.update_fw, node, fw_id[0], fw_id[1], fw_path="fw.hex")
                        C.drain(w, g)
                    except Exception as exc:
                        w.escaped(exc, "update_fw raised")
                    # the stored image object differs (prepared again): compare by content below
                    key = [k_ for k_ in g.gw.tasks.ota.firmware][0]
                    ref["ota"]["firmware"] = {fw_id: g.gw.tasks.ota.firmware[key]}
                else:
                    if kind == "config-request":
                        words = [w.fresh_int(f"e{i}.w{j}", 0, 65535) for j in range(5)]
                        line = C.structured_line(w, [node, 255, 4, 0, 0], C.hex_of_words(w, words))
                    elif kind == "block-request":
                        blk = w.fresh_int(f"e{i}.blk", 0, 7)
                        line = C.structured_line(w, [node, 255, 4, 0, 2],
                                                 C.hex_of_words(w, [fw_id[0], fw_id[1], blk]))
                    elif kind == "set":
                        line = C.structured_line(w, [ids[0], child, 1, w.fresh_int(f"e{i}.ack", 0, 1),
                                                     vt], "7")
                    else:
                        line = C.structured_line(w, [node, 255, 0, 0, 17], version)
                    w.info["events"].append(line)
                    m = w.new(Message, line)
                    msg = tuple(w.get(m, f_) for f_ in C.FIELDS)
                    rule, expected = w.call(R.ref_step, version, ref, msg, g.gw.metric, local_time)
                    try:
                        C.step_line(w, g, line)
                    except Exception as exc:
                        w.escaped(exc, f"pump raised at event {i + 1} ({kind})")
                out = C.emissions(g)
                w.check(stepref.seq_eq(w, out, expected),
                        f"event {i + 1} ({kind}): reply differs from the session automaton "
                        f"(got {len(out)}, expected {len(expected)})")
                w.check(stepref.state_eq(w, stepref.project(g.gw), ref),
                        f"event {i + 1} ({kind}): session state differs from the automaton")
            w.goal("ota-history")
    return fn


def build(tier):
    q = tier == "quick"
    versions = ["1.4", "2.2"] if q else C.VERSIONS
    shapes = [["awake1", "bare"]] if q else [["awake1", "bare"], ["sleep", "awake1"]]
    session = stepref.step(versions, shapes, 0, [("sync", "serial")], {"state", "reply"},
                           only=only_stream, hexshapes=True,
                           ota_modes=("requested", "unstarted", "started", "none", "fixed"),
                           unprescribed=unprescribed)
    hs = [
        Harness("session-step", session,
                {"command": "stream (4), every sub-type", "payload": "hex-shaped, lengths "
                 + str(C.HEX_LENGTHS), "session_of_first_node": ["requested", "unstarted", "started",
                                                                "none"], "shapes": shapes},
                goals=["accepted", "rejected"],
                doc="firmware requests vs the session automaton (reply-or-none, stores)"),
        Harness("update-call", update_call(versions),
                {"forms": ["single", "list", "unknown", "no-firmware", "bad-type", "same-firmware"],
                 "earlier_session": ["none", "requested", "unstarted", "started"]},
                goals=["single", "list", "unknown", "no-firmware", "bad-type", "same-firmware"],
                doc="update_fw call forms: who is scheduled, restart, reboot flag"),
        Harness("ota-history", ota_history(["2.2"], 4 if q else 5),
                {"events": 4 if q else 5, "kinds": OTA_KINDS, "nodes": 2, "version": "2.2",
                 "requests": "symbolic words / block index"},
                goals=["ota-history"],
                doc="bounded OTA histories through the public API vs the session automaton"),
    ]
    if not q:
        hs.append(Harness("ota-history-1.4", ota_history(["1.4"], 4),
                          {"events": 4, "kinds": OTA_KINDS, "nodes": 2, "version": "1.4"},
                          goals=["ota-history"],
                          doc="the same histories (4 events) on a 1.4 gateway"))
    return {
        "harnesses": hs,
        "level_text": "inductive one-step equivalence of respond_fw_config/respond_fw/_get_fw and "
                      "make_update with the reference session automaton (requested -> offered -> "
                      "fetching), for symbolic hex payloads, node ids, firmware ids and stores",
        "assumptions": ["a block request for a firmware other than the one scheduled for the node, "
                        "and a block index beyond the image, are not prescribed by the statement: "
                        "for those inputs only 'the pump does not raise' is checked",
                        "set -> reboot request and presentation -> reboot cleared are part of the "
                        "C04/C05 reference"],
        "outside": ["Intel-HEX loading (stubbed load_fw)", "more than two nodes / one image"],
        "stubs": ["load_fw -> fixed 100-byte image"],
    }
