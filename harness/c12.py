"""C12 - saving replaces the persistence file atomically."""
from symex.fsenv import Crash
from symex.run import Harness

from . import common as C
from . import persist as P

MAXOPS = 12


def atomic(fmts):
    def fn(w):
        fmt = w.pick(fmts, "format")
        main0 = w.pick(["absent", "old"], "main")
        bak0 = w.pick(["absent", "stale"], "backup")
        tmp0 = w.pick(["absent", "stale", "garbage"], "temp")
        mode = w.pick(["crash", "fault"], "mode")
        pos = w.choose(MAXOPS, "position")
        lose = w.flag("lose_unsynced") if mode == "crash" else False
        fs = P.make_fs(w, fmt)
        with fs.installed():
            main = P.fname(fmt)
            OLD, STALE, NEW = (P.small_state(w, t) for t in ("old", "stale", "new"))
            if main0 == "old":
                fs.files[main] = [("GOOD", OLD), True]
            if bak0 == "stale":
                fs.files[main + ".bak"] = [("GOOD", STALE), True]
            if tmp0 != "absent":
                fs.files[f"/fs/mysensors.tmp.{fmt}"] = [
                    ("GOOD", STALE) if tmp0 == "stale" else ("PARTIAL", STALE), True]
            prev = OLD if main0 == "old" else (STALE if bak0 == "stale" else ())
            g = P.pgateway(w, "1.4", fmt)
            P.install_state(g, NEW)
            pers = g.gw.tasks.persistence
            pers.need_save = True
            if mode == "crash":
                fs.crash_at = pos
            else:
                fs.fault_at = pos
            w.info = {"format": fmt, "main": main0, "backup": bak0, "temp": tmp0, "mode": mode,
                      "position": pos, "lose_unsynced": lose}
            outcome = "completed"
            try:
                w.call(pers.save_sensors)
            except Crash:
                outcome = "crashed"
            except OSError:
                outcome = "fault"
            except Exception as exc:
                w.escaped(exc, "save raised something other than the injected OSError")
            w.info["outcome"] = outcome
            w.info["ops"] = list(fs.log)
            w.goal(outcome)
            if outcome == "fault":
                w.check(pers.need_save is True, "failed save cleared the unsaved flag")
            if outcome == "completed":
                if pos >= fs.nops:
                    w.goal("no-injection")
                w.check(pers.need_save is False, "completed save left the unsaved flag set")
            # ---- the process restarts --------------------------------------------------
            fs.after_crash(lose)
            g2 = P.pgateway(w, "1.4", fmt)
            try:
                w.call(g2.gw.tasks.persistence.safe_load_sensors)
            except Exception as exc:
                w.escaped(exc, f"start-up load raised after {outcome}")
            loaded = P.snapshot(g2.gw.sensors)
            w.info["files_after"] = {k: v[0][0] for k, v in fs.files.items()}
            if outcome == "completed":
                w.check(w.eq(loaded, NEW), "load after a completed save is not the new state")
            else:
                w.check(w.or_(w.eq(loaded, prev), w.eq(loaded, NEW)),
                        f"load after {outcome} is neither the previous nor the new state")
            # ---- and the next save succeeds ------------------------------------------------
            extra = P.small_state(w, "extra")
            w.assume_fast(w.and_(*[w.ne(extra[0][0], k) for k in g2.gw.sensors.keys()]))
            P.install_state(g2, extra)
            pers2 = g2.gw.tasks.persistence
            pers2.need_save = True
            want = P.snapshot(g2.gw.sensors)
            try:
                w.call(pers2.save_sensors)
            except Exception as exc:
                w.escaped(exc, f"the next save after {outcome} raised")
            fs.after_crash(False)
            g3 = P.pgateway(w, "1.4", fmt)
            try:
                w.call(g3.gw.tasks.persistence.safe_load_sensors)
            except Exception as exc:
                w.escaped(exc, "load after the next save raised")
            w.check(w.eq(P.snapshot(g3.gw.sensors), want),
                    f"the save following {outcome} did not persist the then-current state")
    return fn


def build(tier):
    P.contract()  # tabulated once here, inherited by every forked explorer
    hs = [Harness("atomic-save", atomic(["json", "pickle"]),
                  {"formats": ["json", "pickle"], "prior": "main absent/old x backup absent/stale "
                   "x temp absent/stale/garbage", "positions": f"every FS operation 0..{MAXOPS - 1}"
                   " as crash point or failing operation", "lose_unsynced": "both"},
                  goals=["crashed", "fault", "completed", "no-injection"],
                  doc="save_sensors with crash / fault at a symbolic operation, then restart")]
    return {
        "harnesses": hs,
        "level_text": "symbolic execution of the real save_sensors / _perform_file_action / "
                      "safe_load_sensors on an abstract file system; crash point, failing "
                      "operation, prior on-disk configuration and data loss are choice variables "
                      "explored exhaustively; state contents symbolic",
        "assumptions": ["POSIX rename is atomic and replaces", "directory entries survive a "
                        "crash in operation order (directory fsync not modelled)",
                        "serialiser writes in two chunks; decoder raises a member of the "
                        "tabulated contract on damaged content"],
        "outside": ["byte-level file formats", "multiple faults in one save"],
        "stubs": ["open/os.*/pickle/json -> abstract FS and serialiser (symex/fsenv.py)"],
    }
