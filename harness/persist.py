"""Shared pieces of the persistence harnesses (C06, C11-C15): gateway with persistence enabled on
the abstract file system, persisted projection, rebuild of a state from a projection."""
from collections import deque

from symex.fsenv import FS, Crash, decoder_contract

from . import common as C

_CONTRACT = None


def contract():
    global _CONTRACT
    if _CONTRACT is None:
        _CONTRACT = decoder_contract()
    return _CONTRACT


def snapshot(sensors):
    from mysensors.sensor import Sensor
    return tuple((k, C.snap_persisted(s) if isinstance(s, Sensor)
                  else ("not a Sensor object", type(s).__name__)) for k, s in sensors.items())


def rebuild(state):
    """A dict of fresh Sensor objects holding exactly the persisted projection `state`."""
    from mysensors.sensor import ChildSensor, Sensor
    out = {}
    for k, (sid, typ, sk_name, sk_ver, batt, pver, hb, children) in state:
        s = Sensor.__new__(Sensor)
        d = s.__dict__
        d.update(sensor_id=sid, type=typ, sketch_name=sk_name, sketch_version=sk_ver,
                 _battery_level=batt, _protocol_version=pver, _heartbeat=hb, children={},
                 new_state={}, queue=deque(), reboot=False)
        for ck, (cid, ctyp, desc, values) in children:
            c = ChildSensor.__new__(ChildSensor)
            c.__dict__.update(id=cid, type=ctyp, description=desc, values=dict(values))
            d["children"][ck] = c
        out[k] = s
    return out


def to_json(w, enc, obj):
    """json.dump data model: dict keys become strings, unknown objects go through default()."""
    if obj is None or isinstance(obj, (bool,)):
        return obj
    if w.symbolic:
        from symex.core import SBool, SInt, SStr
        if isinstance(obj, (SInt, SStr, SBool)):
            return obj
    if isinstance(obj, (int, str)):
        return obj
    if isinstance(obj, dict):
        out = {}
        for k, v in obj.items():
            if isinstance(k, str) or (w.symbolic and type(k).__name__ == "SStr"):
                key = k
            elif k is None or isinstance(k, bool):
                raise TypeError("unsupported JSON key in the model")
            else:
                key = w.call(str, k)
            out[key] = to_json(w, enc, v)
        return out
    if isinstance(obj, (list, tuple, deque)):
        return [to_json(w, enc, x) for x in obj]
    return to_json(w, enc, w.call(enc.default, obj))


def from_json(w, dec, tree):
    """json.load data model: object_hook applied bottom-up to every decoded object."""
    if isinstance(tree, dict):
        inner = {}
        for k, v in tree.items():
            inner[k] = from_json(w, dec, v)
        return w.call(dec.dict_to_object, inner)
    if isinstance(tree, list):
        return [from_json(w, dec, x) for x in tree]
    return tree


def pickled(w, obj, memo=None):
    """pickle round trip: identity on the object graph modulo __getstate__/__setstate__."""
    from mysensors.sensor import ChildSensor, Sensor
    if isinstance(obj, dict):
        return {k: pickled(w, v) for k, v in obj.items()}
    if isinstance(obj, deque):
        return deque(pickled(w, x) for x in obj)
    if isinstance(obj, (list, tuple)):
        return type(obj)(pickled(w, x) for x in obj)
    if isinstance(obj, (Sensor, ChildSensor)):
        getstate = getattr(type(obj), "__getstate__", None)
        if "__getstate__" in type(obj).__dict__:
            state = w.call(obj.__getstate__)
        else:
            state = dict(obj.__dict__)
        state = pickled(w, state)
        new = type(obj).__new__(type(obj))
        w.call(new.__setstate__, state)
        return new
    return obj


def through_hooks(w, fmt, sensors):
    """What the format's loader hands back for a file that holds `sensors`: the abstract
    serialiser's round trip through the repository's REAL hooks (JSON encoder default() / decoder
    dict_to_object, or __getstate__ / __setstate__), so that a defect in a hook is visible to every
    harness that restarts from a file - not only to C11."""
    if fmt == "json":
        from mysensors.persistence import MySensorsJSONDecoder, MySensorsJSONEncoder
        return from_json(w, MySensorsJSONDecoder(), to_json(w, MySensorsJSONEncoder(), sensors))
    return pickled(w, sensors)


def make_fs(w, fmt):
    fs = FS(w, fmt, contract()[0])
    fs.snapshot = snapshot
    fs.rebuild = lambda state: through_hooks(w, fs.fmt, rebuild(state))
    return fs


def fname(fmt):
    return f"/fs/mysensors.{fmt}"


def pgateway(w, version, fmt, flavour="sync", transport="serial", **kw):
    return C.make_gateway(w, version, flavour, transport, persistence=True,
                          persistence_file=fname(fmt), **kw)


def small_state(w, tag, version="1.4"):
    """A persisted projection of a one-node network with symbolic content."""
    nid = w.fresh_int(f"{tag}.id", 0, 255)
    cid = w.fresh_int(f"{tag}.cid", 0, 254)
    vt = w.fresh_int(f"{tag}.vt", 0, 39)
    val = C.wire_payload(w, f"{tag}.val", 1, 1)
    child = (cid, w.fresh_int(f"{tag}.ctype", 0, 25), "", ((vt, val),))
    return ((nid, (nid, w.fresh_int(f"{tag}.type", 0, 25), None, None,
                   w.fresh_int(f"{tag}.batt", 0, 100), version, 0, ((cid, child),))),)


def install_state(g, state):
    g.gw.sensors.update(rebuild(state))


def run_sync_or_coro(w, r):
    from symex.interp import Coro
    from symex.world import NativeCoro
    if isinstance(r, (Coro, NativeCoro)):
        return w.run_coro(r)
    return r


def load_probe(w, fs, fmt, version="2.2"):
    """What a start-up would load right now: the REAL safe_load_sensors of a fresh gateway, run on
    a copy of the file system (the loader renames / removes files; the probe must not disturb the
    run it observes).  Returns the loaded projection."""
    saved = ({k: list(v) for k, v in fs.files.items()}, fs.nops, list(fs.log), fs.fault_at,
             fs.crash_at, fs.dump_fault, list(fs.loads))
    fs.fault_at = fs.crash_at = None
    fs.dump_fault = False
    try:
        g2 = pgateway(w, version, fmt)
        try:
            w.call(g2.gw.tasks.persistence.safe_load_sensors)
        except Exception as exc:
            w.escaped(exc, "start-up load raised")
        return snapshot(g2.gw.sensors)
    finally:
        fs.files.clear()
        fs.files.update(saved[0])
        fs.nops, fs.fault_at, fs.crash_at, fs.dump_fault = saved[1], saved[3], saved[4], saved[5]
        fs.log[:] = saved[2]
        fs.loads[:] = saved[6]
