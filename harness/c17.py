"""C17 - MQTT topics and commands map one-to-one."""
import z3

from symex.run import Harness

from . import common as C
from . import persist as P

ALPHA = [(45, 45), (48, 57), (97, 122)]  # '-', digits, lower-case letters
DIGITS = [(48, 57)]


def level(w, name, maxlen, minlen=0, alphabet=ALPHA):
    return w.fresh_str(name, maxlen, minlen, alphabet)


def prefix(w, name, maxlevels, maxlen):
    n = w.choose(maxlevels + 1, f"levels({name})")
    parts = []
    for i in range(n):
        if i:
            parts.append("/")
        parts.append(level(w, f"{name}{i}", maxlen, 0))
    return C.concat(w, parts) if parts else ""


def send_recv(versions, P_, maxlevels, wide=(0,)):
    """(a) publish a command, feed the same levels back on the inbound prefix."""
    def fn(w):
        from mysensors.message import Message
        version = w.pick(versions, "version")
        flavour = w.pick(["sync", "async"], "flavour")
        retain = w.flag("retain")
        env = C.make_env(w)
        with env.installed():
            inp, outp = prefix(w, "in", maxlevels, 2), prefix(w, "out", maxlevels, 2)
            g = C.make_gateway(w, version, flavour, "mqtt", in_prefix=inp, out_prefix=outp,
                               pubsub_raises=C.sym_flag(w, "pubsub_raises"))
            g.gw.tasks.transport._retain = retain
            node = w.fresh_int("node_id", 0, 255)
            child = w.fresh_int("child_id", 0, 255)
            typ = w.fresh_int("type", 0, 4)
            ack = w.fresh_int("ack", 0, 1)
            sub = w.fresh_int("sub_type", 0, 60)
            payload = C.wire_payload(w, "payload", P_)
            line = C.structured_line(w, [node, child, typ, ack, sub], payload)
            w.info = {"version": version, "in_prefix": inp, "out_prefix": outp, "line": line}
            tr = g.gw.tasks.transport
            try:
                w.call(tr.send, line)
            except Exception as exc:
                w.escaped(exc, "MQTT send raised")
            pubs = g.pubsub.published
            w.check(len(pubs) == 1, "send did not publish exactly once")
            topic, pl, qos, ret = pubs[0]
            want = C.concat(w, [outp, "/", node, "/", child, "/", typ, "/", ack, "/", sub])
            w.check(w.eq(topic, want), "published topic is not out_prefix/n/c/t/a/s")
            w.check(w.eq(pl, payload), "published payload differs from the command's")
            w.check(w.eq(qos, ack), "published QoS is not the ack flag")
            w.check(ret is retain, "retain flag not honoured")
            # inbound: same levels on the inbound prefix, digit-string levels
            q = w.fresh_int("qos", 0, 2)
            lv = [level(w, f"lv{i}", 2 if i in wide else 1, 1, DIGITS) for i in range(5)]
            parts = [inp]
            for x in lv:
                parts += ["/", x]
            topic_in = C.concat(w, parts)
            w.info["topic_in"] = topic_in
            nq = len(g.gw.tasks.queue)
            lines = []
            if flavour == "async":
                orig = g.gw.logic
                g.gw.logic = C.Recorder(lines)
            try:
                w.call(tr.recv, topic_in, payload, q)
            except Exception as exc:
                w.escaped(exc, "MQTT recv raised")
            if flavour == "sync":
                w.check(len(g.gw.tasks.queue) == nq + 1, "valid inbound topic was not accepted")
                func, args = g.gw.tasks.queue[-1]
                data = args[0]
            else:
                w.check(len(lines) == 1, "valid inbound topic was not accepted")
                data = lines[0]
            try:
                m = w.new(Message, data)
            except ValueError as exc:
                w.escaped(exc, "line built from a valid topic does not decode")
            for name, x in zip(["node_id", "child_id", "type", "sub_type"],
                               [lv[0], lv[1], lv[2], lv[4]]):
                w.check(w.eq(w.get(m, name), w.call(int, x)), f"inbound {name} differs from its level")
            w.check(w.eq(w.get(m, "payload"), payload), "inbound payload differs")
            qpos = w.lt(0, q)
            w.check(w.eq(w.get(m, "ack"), w.ite(qpos, 1, 0)), "inbound ack is not (qos > 0)")
            w.goal("roundtrip")
    return fn


def acceptance(maxlevels, maxprefix):
    """(b) a topic is accepted iff it is in_prefix + '/' + exactly five levels."""
    def fn(w):
        env = C.make_env(w)
        with env.installed():
            inp = prefix(w, "in", maxprefix, 1)
            g = C.make_gateway(w, "2.2", "sync", "mqtt", in_prefix=inp)
            n = w.choose(maxlevels + 1, "topic_levels")
            lead = w.flag("leading_slash")
            lv = [level(w, f"t{i}", 1, 0 if i < 2 else 1) for i in range(n)]
            parts = ["/"] if lead else []
            for i, x in enumerate(lv):
                if i:
                    parts.append("/")
                parts.append(x)
            topic = C.concat(w, parts) if parts else ""
            w.info = {"in_prefix": inp, "topic": topic}
            tr = g.gw.tasks.transport
            nq = len(g.gw.tasks.queue)
            try:
                w.call(tr.recv, topic, "", 0)
            except Exception as exc:
                w.escaped(exc, "MQTT recv raised")
            accepted = len(g.gw.tasks.queue) == nq + 1
            # reference: split at '/', the last five levels are the message, the rest the prefix
            levels = ([""] if lead else []) + list(lv)
            if not levels:
                levels = [""]
            if len(levels) >= 6:
                head = []
                for i, x in enumerate(levels[:-5]):
                    if i:
                        head.append("/")
                    head.append(x)
                want = w.eq(C.concat(w, head) if head else "", inp)
            else:
                want = False
            want = w.is_true(want)
            w.goal("accepted" if accepted else "rejected")
            w.check(accepted == want,
                    "topic " + ("accepted" if accepted else "rejected") + " but it "
                    + ("is" if want else "is not") + " in_prefix followed by five levels")
    return fn


def subscriptions(versions):
    """(c)/(d) subscriptions after start on a restored state and after a child presentation."""
    def fn(w):
        version = w.pick(versions, "version")
        flavour = w.pick(["sync", "async"], "flavour")
        fs = P.make_fs(w, "json")
        with fs.installed():
            inp = prefix(w, "in", 2, 1)
            g = P.pgateway(w, version, "json", flavour, "mqtt", in_prefix=inp,
                           pubsub_raises=C.sym_flag(w, "pubsub_raises"))
            ids = C.gen_network(w, g, ["awake", "bare"])
            w.info = {"version": version, "flavour": flavour, "in_prefix": inp}
            try:
                P.run_sync_or_coro(w, w.call(g.gw.tasks.transport.connect))
            except Exception as exc:
                w.escaped(exc, "init_topics raised")
            subs = [t for (t, cb, qos) in g.pubsub.subscribed]

            def has(topic):
                return w.or_(*[w.eq(t, topic) for t in subs])
            for t in ("/+/+/0/+/+", "/+/+/3/+/+"):
                w.check(has(C.concat(w, [inp, t])), f"no subscription for {t}")
            for nid, s in g.gw.sensors.items():
                for cid in s.children:
                    for mt in (1, 2):
                        w.check(has(C.concat(w, [inp, "/", nid, "/", cid, "/", mt, "/+/+"])),
                                "restored child without set/req subscription")
                if s.children:
                    w.check(has(C.concat(w, [inp, "/", nid, "/+/4/+/+"])),
                            "restored node without stream subscription")
            # a new child is presented
            node = ids[1]
            cid = w.fresh_int("pres.child", 0, 254)
            styp = w.fresh_int("pres.type", 0, 25)
            line = C.structured_line(w, [node, cid, 0, 0, styp], "")
            w.info["line"] = line
            if C.classify(w, version, line) != "accepted":
                return
            del g.pubsub.subscribed[:]
            try:
                C.step_line(w, g, line)
            except Exception as exc:
                w.escaped(exc, "presentation raised")
            subs = [t for (t, cb, qos) in g.pubsub.subscribed]
            for mt in (1, 2):
                w.check(has(C.concat(w, [inp, "/", node, "/", cid, "/", mt, "/+/+"])),
                        "presented child without set/req subscription")
            w.check(has(C.concat(w, [inp, "/", node, "/+/4/+/+"])),
                    "presented child's node without stream subscription")
            w.goal("subscribed")
    return fn


def build(tier):
    P.contract()  # tabulated once here, inherited by every forked explorer
    q = tier == "quick"
    hs = [
        Harness("send-recv", send_recv(["2.2"] if q else ["1.4", "2.2"], 1, 2,
                                       (0,) if q else (0, 1)),
                {"prefix": "0..2 levels of <= 2 chars over [a-z0-9-]", "header": "in range",
                 "inbound_levels": "1 symbolic digit (node: 1..2)", "qos": "0..2"},
                goals=["roundtrip"], doc="publish == out_prefix/n/c/t/a/s; inbound decodes back"),
        Harness("acceptance", acceptance(7 if q else 8, 2 if q else 3),
                {"topic": "0..7 levels of 1 char (first two: 0..1) over [a-z0-9-], optional "
                          "leading '/'",
                 "in_prefix": "0..2 levels of <= 1 char"},
                goals=["accepted", "rejected"],
                doc="accepted iff in_prefix + '/' + exactly five levels"),
        Harness("subscriptions", subscriptions(["1.4", "2.2"]),
                {"restored": "two nodes, one with two children", "presentation": "symbolic child"},
                goals=["subscribed"], doc="init_topics on a restored state; child presentation"),
    ]
    return {
        "harnesses": hs,
        "level_text": "symbolic execution of parse_message_to_mqtt / parse_mqtt_to_message / "
                      "MQTTTransport.send/recv/handle_subscription / init_topics over symbolic "
                      "prefixes, headers, payloads and topics (str.find modelled on atom tuples)",
        "assumptions": ["prefix / topic alphabets and lengths as listed"],
        "outside": ["MQTT wildcard semantics of the broker", "longer prefixes / levels"],
        "stubs": ["pub/sub callbacks -> recording fakes that may raise (symbolic flag)"],
    }
