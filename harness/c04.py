"""C04 - see DESIGN.md section 5; assertions selected from harness/stepref.py."""
from . import stepref
from . import c04_extra as extra


def build(tier):
    return stepref.build_for("C04", {"state", "callback"}, tier,
                             "inductive one-step equivalence of the real handlers with the reference transition function (node/child/value tree, attributes, desired state, hold queue, OTA stores) and the exact-callback rule, from arbitrary pre-states in Inv with unbounded header integers", extra=extra.harnesses(tier), versions=extra.VERSIONS)
