"""C09, last clause - an Intel-HEX file loads to exactly the bytes it encodes.

`mysensors.ota.load_fw` is interpreted from its source together with the part of the third-party
`intelhex` parser it drives (`IntelHex.__init__`, `loadfile`, `loadhex`, `_decode_record`,
`tobinstr` ... - interpreted from the installed source like pyserial's framing classes).  The
file is a sequence of records whose *structure* (record kinds, data lengths) is enumerated and
whose *content* is symbolic: every hex digit of an address, data byte, segment / linear base,
start address and checksum is a symbolic character (either case), constrained only by the
Intel-HEX well-formedness rule sum(record bytes) = 0 mod 256.  The oracle is the definition of
the format (verifspec/intelhex_ref.py): data byte i of a record lives at base + address + i."""
import builtins
import os

import z3

from symex.core import SBytes, SInt, SStr, mk_int, zint
from symex.run import Harness
from verifspec import intelhex_ref as R

from . import common as C

HEXA = [(48, 57), (65, 70), (97, 102)]
SPAN = 16  # bound on (highest - lowest data address): the loader's output loop runs over it

INTELHEX_FUNCS = {
    "IntelHex.__init__", "IntelHex._decode_record", "IntelHex.loadhex", "IntelHex.loadfile",
    "IntelHex._get_start_end", "IntelHex.tobinarray", "IntelHex._tobinarray_really",
    "IntelHex.tobinstr", "IntelHex._tobinstr_really", "IntelHex.minaddr", "IntelHex.maxaddr",
    "IntelHex.loadbin", "IntelHex.frombytes", "IntelHex.__setitem__", "IntelHex.__getitem__",
    "IntelHex.addresses", "IntelHex.todict", "IntelHex.__len__", "IntelHex.gets",
    "IntelHexError.__init__", "IntelHexError.__str__", "_DeprecatedParam.__init__",
    "asbytes", "asstr", "dict_keys", "dict_keys_g", "dict_items_g", "range_l",
}


def interp_pred(fn):
    from symex.interp import default_interp_pred
    mod = getattr(fn, "__module__", "") or ""
    if mod in ("intelhex", "intelhex.compat"):
        return fn.__qualname__ in INTELHEX_FUNCS
    return default_interp_pred(fn)


class ByteArray:
    """array('B', ...) - a list of byte values (symbolic or concrete)."""
    __symex_opaque__ = True

    def __init__(self, items):
        self.items = list(items)

    def __len__(self):
        return len(self.items)

    def __symex_len__(self, it):
        return len(self.items)

    def __symex_iter__(self, it):
        return list(self.items)

    def __symex_getitem__(self, it, i):
        if isinstance(i, slice):
            return ByteArray(self.items[i])
        return self.items[i]

    def __getitem__(self, i):
        return self.items[i]

    def __iter__(self):
        return iter(self.items)

    def __symex_getattr__(self, it, name):
        arr = self
        if name == "append":
            def append(x):
                arr.items.append(x)
            append.__symex_native__ = True
            return append
        if name in ("tobytes", "tostring"):
            def tobytes():
                return to_bytes(arr)
            tobytes.__symex_native__ = True
            return tobytes
        if name == "extend":
            def extend(xs):
                arr.items.extend(list(xs))
            extend.__symex_native__ = True
            return extend
        raise AttributeError(name)


def to_bytes(arr):
    items = [x.e if isinstance(x, SInt) else x for x in arr.items]
    if all(isinstance(x, int) for x in items):
        return bytes(items)
    return SBytes(items)


class FakeFile:
    """Text file object over a list of lines (each line a string value)."""
    __symex_native__ = True
    __symex_opaque__ = True

    def __init__(self, lines):
        self.lines = lines
        self.closed = False

    def __enter__(self):
        return self

    def __exit__(self, *exc):
        self.closed = True
        return False

    def __iter__(self):
        return iter(self.lines)

    def __symex_iter__(self, it):
        return list(self.lines)

    def close(self):
        self.closed = True

    def readlines(self):
        return list(self.lines)

    def read(self, n=-1):
        out = self.lines[0] if self.lines else ""
        for x in self.lines[1:]:
            out = out + x
        return out


def digits(w, name, n):
    """n symbolic hex digits and the list of the n/2 bytes they spell."""
    s = w.fresh_str(name, n, n, alphabet=HEXA)
    if w.symbolic:
        from symex.models import hexval
        cs = list(s.cs)
        vals = [SInt(16 * hexval(cs[i]) + hexval(cs[i + 1])) for i in range(0, n, 2)]
    else:
        w.assume(all(ch in "0123456789abcdefABCDEF" for ch in s))
        vals = [int(s[i:i + 2], 16) for i in range(0, n, 2)]
    return s, vals


def be(w, vals):
    """Big-endian number of a list of byte values."""
    acc = 0
    for v in vals:
        acc = w.add(w.mul(acc, 256), v)
    return acc


def record(w, tag, kind, nbytes):
    """One record line with symbolic content.  Returns (line text, address value, data bytes)."""
    ll = f"{nbytes:02X}"
    tt = {"data": "00", "eof": "01", "ext-segment": "02", "start-segment": "03",
          "ext-linear": "04", "start-linear": "05"}[kind]
    if kind == "data":
        a_s, a_v = digits(w, f"{tag}.addr", 4)
    else:
        a_s, a_v = "0000", [0, 0]
    d_s, d_v = digits(w, f"{tag}.data", 2 * nbytes) if nbytes else ("", [])
    c_s, c_v = digits(w, f"{tag}.sum", 2)
    total = nbytes + int(tt, 16)
    for v in a_v + d_v + c_v:
        total = w.add(total, v)
    # well-formed: the record's bytes sum to 0 modulo 256
    if w.symbolic:
        w.assume_fast(SBoolOf(zint(total) % 256 == 0))
    else:
        w.assume(total % 256 == 0)
    eol = w.pick(["\n", "\r\n"], f"{tag}.eol") if tag == "r0" else "\n"
    line = concat(w, ":", ll, a_s, tt, d_s, c_s, eol)
    return line, be(w, a_v), d_v


def concrete(w, v, bound):
    """The value of an address / base word, made concrete by solver-driven enumeration (one path
    per feasible value)."""
    if not w.symbolic or isinstance(v, int):
        return int(v)
    from symex.models import enumerate_int
    return enumerate_int(w.it, v, 0, bound)


def SBoolOf(e):
    from symex.core import SBool
    return SBool(e)


def concat(w, *parts):
    if not w.symbolic:
        return "".join(parts)
    cs = []
    for p in parts:
        if isinstance(p, str):
            cs.extend(ord(c) for c in p)
        else:
            cs.extend(p.cs)
    return SStr(cs)


REBUILT = [":020000040000FA\n", ":03001000A1B2C3D7\n", ":00000001FF\n"]
REBUILT_IMAGE = bytes([0xA1, 0xB2, 0xC3])


def hexfile(max_records, span=SPAN, extra_kinds=()):
    def fn(w):
        import array as array_mod
        import intelhex.compat as compat
        from mysensors import ota
        env = C.make_env(w)
        nrec = 1 + w.choose(max_records, "records_before_eof")
        lines, mem = [], []
        base = 0
        kinds = []
        for r in range(nrec):
            kind = w.pick(["data1", "data2", "data0", "ext-segment", "ext-linear", "start-linear",
                           "start-segment"] + list(extra_kinds), f"r{r}.kind")
            kinds.append(kind)
            if kind.startswith("data"):
                n = int(kind[4:])
                line, addr, data = record(w, f"r{r}", "data", n)
                # addresses are kept inside a small window so that the output loop is bounded
                w.assume(w.lt(addr, span))
                R.data_record(mem, base, concrete(w, addr, span), data)
            elif kind == "ext-segment":
                line, _, data = record(w, f"r{r}", kind, 2)
                w.assume(w.lt(be(w, data), 2))
                base = R.segment_base(concrete(w, be(w, data), 2))
            elif kind == "ext-linear":
                line, _, data = record(w, f"r{r}", kind, 2)
                w.assume(w.lt(be(w, data), 2))
                base = R.linear_base(concrete(w, be(w, data), 2))
            else:
                line, _, data = record(w, f"r{r}", kind, 4)
            lines.append(line)
        if sum(1 for k in kinds if k.startswith("start")) > 1:
            w.cut("two start-address records (rejected by the parser: outside the clause)")
        eof, _, _ = record(w, "eof", "eof", 0)
        lines.append(eof)
        tail = w.pick(["none", "blank-line", "junk-after-eof"], "after_eof") if nrec == 1 else "none"
        if tail == "blank-line":
            lines.append("\n")
        elif tail == "junk-after-eof":
            lines.append("this is not a record\n")
        w.info = {"lines": lines, "kinds": kinds}
        # the format's meaning of the file (oracle)
        want = R.image(mem)
        overlap = want == "overlap"
        if not overlap and want is not None and len(want) > 2 * span:
            w.cut("data on both sides of a 64 KiB base change (output loop beyond the bound)")
        opened = []

        content = [lines]

        def fake_open(a, k):
            f = FakeFile(content[0])
            opened.append(f)
            return f
        env.add(builtins.open, fake_open, "builtins.open")
        env.add(os.path.realpath, lambda a, k: a[0], "os.path.realpath")
        present = {"file": True, "readable": True}
        env.add(os.path.isfile, lambda a, k: present["file"], "os.path.isfile")
        env.add(os.path.exists, lambda a, k: present["file"], "os.path.exists")
        env.add(os.access, lambda a, k: present["readable"], "os.access")
        if w.symbolic:
            env.add(array_mod.array, lambda a, k: ByteArray(as_items(w, a[1]) if len(a) > 1 else []),
                    "array.array")
            env.add(compat.array_tobytes, lambda a, k: to_bytes(a[0]), "intelhex.compat.array_tobytes")
            w.it.interp_pred = interp_pred
            w.it.LOOP_BOUND = 1 << 18
        with env.installed():
            try:
                got = w.call(ota.load_fw, "firmware.hex")
            except Exception as exc:
                w.escaped(exc, "load_fw raised")
            # the file is rewritten (a new build of the sketch) and loaded again from the same path
            content[0] = list(REBUILT)
            try:
                again = w.call(ota.load_fw, "firmware.hex")
            except Exception as exc:
                w.escaped(exc, "load_fw raised on the rewritten file")
            w.check(again is not None and bytes(again) == REBUILT_IMAGE,
                    "a rewritten firmware file loaded to something else than the bytes it encodes")
            if nrec == 1 and tail == "none":
                # a path that does not exist / is not readable: no image, no exception
                gone = w.pick(["missing", "unreadable"], "then_the_file_is")
                present["file" if gone == "missing" else "readable"] = False
                n_open = len(opened)
                try:
                    nothing = w.call(ota.load_fw, "firmware.hex")
                except Exception as exc:
                    w.escaped(exc, f"load_fw raised for a {gone} file")
                w.check(nothing is None and len(opened) == n_open,
                        f"load_fw returned data for a {gone} file")
        if overlap:
            # two records claim the same address: the format gives the file no single meaning
            w.goal("overlap")
            return
        if want is None:
            w.check(got is None or len(got) == 0, "a file without data bytes loaded to something")
            w.goal("no-data")
            return
        w.check(got is not None, "a well-formed Intel-HEX file was rejected")
        gl = list(got.bs) if isinstance(got, SBytes) else list(got)
        w.check(len(gl) == len(want), "loaded image has the wrong length "
                                      "(not lowest..highest encoded address)")
        ok = w.and_(*[w.eq(C.as_int(x), C.as_int(y)) for x, y in zip(gl, want)])
        w.check(ok, "loaded bytes differ from the bytes the file encodes")
        w.check(all(f.closed for f in opened), "firmware file left open")
        w.goal("loaded")
    return fn


def as_items(w, v):
    if isinstance(v, SBytes):
        return [mk_int(b) if not isinstance(b, int) else b for b in v.bs]
    if isinstance(v, ByteArray):
        return list(v.items)
    return list(v)


def harnesses(tier):
    q = tier == "quick"
    n = 2
    span = SPAN if q else 24
    return [Harness("intel-hex", hexfile(n, span, () if q else ("data3",)),
                    {"records_before_eof": f"1..{n}",
                     "record_kinds": ["data (0/1/2 bytes)" if q else "data (0/1/2/3 bytes)",
                                      "extended segment address",
                                      "extended linear address", "start linear address",
                                      "start segment address", "EOF", "blank / junk after EOF"],
                     "content": "every hex digit symbolic (either case); addresses < %d, "
                                "segment / linear base word < 2" % span,
                     "line_ends": ["LF", "CRLF"]},
                    goals=["loaded", "no-data", "overlap"], timeout_ms=20000,
                    doc="load_fw + the intelhex parser interpreted on a symbolic hex file; "
                        "oracle: the format's definition")]
