"""C19 - behaviour depends only on the lines received."""
from symex.run import Harness

from . import common as C
from . import stepref


ASCII_WS = (9, 10, 11, 12, 13, 28, 29, 30, 31, 32)  # what str.strip() removes below 128


class DecodedLine:
    """Result of bytes.decode() on symbolic bytes, kept as a function of the bytes: a sequence of
    *runs*, each run being the byte tuple of one decode() call.  decode(a) + decode(b) is NOT
    decode(a + b) when a character straddles the boundary, so runs are never merged.  What line
    handlers do with text before parsing is supported: concatenation, splitting at LF (an LF byte
    always decodes to an LF character and vice versa), stripping ASCII blanks, emptiness."""

    def __init__(self, atoms, it=None, runs=None):
        self.runs = [tuple(r) for r in runs] if runs is not None else [tuple(atoms)]
        self.runs = [r for r in self.runs if r] or [()]
        self.it = it

    @property
    def atoms(self):
        return tuple(a for r in self.runs for a in r)

    def __len__(self):
        return len(self.atoms)

    def __symex_len__(self, it):
        return len(self.atoms)

    def _blank(self, p, x):
        import z3
        if isinstance(x, int):
            return x in ASCII_WS
        return p.branch(z3.Or([x == c for c in ASCII_WS]))

    def __symex_binop__(self, it, t, other):
        import ast
        from symex.core import Unsupported
        if t is not ast.Add:
            raise Unsupported("operator on undecoded text")
        if isinstance(other, DecodedLine):
            return DecodedLine((), it, runs=self.runs + other.runs)
        if isinstance(other, str):
            if other == "":
                return self
            return DecodedLine((), it, runs=self.runs + [tuple(other.encode())])
        raise Unsupported("concatenation of undecoded text with symbolic text")

    def __symex_rbinop__(self, it, t, other):
        import ast
        from symex.core import Unsupported
        if t is ast.Add and isinstance(other, str):
            if other == "":
                return self
            return DecodedLine((), it, runs=[tuple(other.encode())] + self.runs)
        raise Unsupported("operator on undecoded text")

    def __symex_getattr__(self, it, name):
        from symex.core import Unsupported
        line = self
        if name == "split":
            def split(sep=None, maxsplit=-1):
                if sep != "\n" or maxsplit != -1:
                    raise Unsupported("str.split on undecoded text other than at LF")
                out, cur, run = [], [], []
                for r in line.runs:
                    run = []
                    for a in r:
                        is_lf = (a == 10) if isinstance(a, int) else it.p.branch(a == 10)
                        if is_lf:
                            cur.append(run)
                            out.append(DecodedLine((), it, runs=cur))
                            cur, run = [], []
                        else:
                            run.append(a)
                    cur.append(run)
                out.append(DecodedLine((), it, runs=cur))
                return out
            split.__symex_native__ = True
            return split
        if name not in ("strip", "rstrip", "lstrip"):
            raise Unsupported(f"str.{name} on an undecoded line")

        def strip(*args):
            runs = [list(r) for r in line.runs if r]
            if name in ("strip", "lstrip"):
                while runs and line._blank(it.p, runs[0][0]):
                    runs[0].pop(0)
                    if not runs[0]:
                        runs.pop(0)
            if name in ("strip", "rstrip"):
                while runs and line._blank(it.p, runs[-1][-1]):
                    runs[-1].pop()
                    if not runs[-1]:
                        runs.pop()
            return DecodedLine((), it, runs=runs)
        strip.__symex_native__ = True
        return strip


def piecewise_equal(w, line):
    """A delivered line that was decoded in several pieces equals the decoding of the whole line
    iff no character straddles a piece boundary.  Violation (with concrete bytes) when a valid
    2- or 3-byte character can straddle one; proved equal when every boundary follows an ASCII
    byte; otherwise undecided."""
    import z3
    from symex.core import Unsupported
    runs = [r for r in line.runs if r]
    if len(runs) <= 1:
        return
    straddle, ascii_before = [], []
    for a, b in zip(runs, runs[1:]):
        x, y = C.as_int(a[-1]), C.as_int(b[0])
        two = w.and_(w.le(0xC2, x), w.le(x, 0xDF), w.le(0x80, y), w.le(y, 0xBF))
        three = w.and_(w.le(0xE1, x), w.le(x, 0xEC), w.le(0x80, y), w.le(y, 0xBF))
        straddle.append(w.or_(two, three))
        ascii_before.append(w.lt(x, 0x80))
    # (a multi-byte character split across two chunks and decoded piecewise; same label as the
    # byte-wise comparison below, which is what the native replay evaluates)
    w.check(w.not_(w.or_(*straddle)), "delivered line differs from the split of the whole stream")
    if not w.is_true(w.and_(*ascii_before)):
        raise Unsupported("equality of piecewise and whole-line decoding is undecided here")


def is_blank(w, atoms):
    """All bytes are ASCII blanks (a line the decoder rejects whatever else happens)."""
    import z3
    if not w.symbolic:
        return all(b in ASCII_WS for b in atoms)
    conj = [(x in ASCII_WS) if isinstance(x, int) else z3.Or([x == c for c in ASCII_WS])
            for x in atoms]
    if any(c is False for c in conj):
        return False
    conj = [c for c in conj if c is not True]
    return w.is_true(z3.And(conj)) if conj else True


def segmentation(nbytes, maxchunks):
    """(a) every way of cutting a byte stream into chunks yields the same sequence of lines, which
    is the split of the whole stream at LF; the tail stays buffered."""
    def fn(w):
        from mysensors.transport import BaseMySensorsProtocol
        n = w.choose(nbytes + 1, "stream_length")
        stream = w.fresh_bytes("stream", n)
        cuts = []
        lo = 0
        for i in range(maxchunks - 1):
            c = lo + w.choose(n - lo + 1, f"cut{i}")
            cuts.append(c)
            lo = c
        bounds = [0] + cuts + [n]
        via = w.pick(["protocol", "tcp-reader"], "delivered_by")
        env = C.make_env(w)
        with env.installed():
            g = C.make_gateway(w, "2.2")
            proto = g.gw.tasks.transport.protocol
            lines = []
            g.gw.tasks.add_job = C.Recorder2(lines)
            if w.symbolic:
                from symex import models
                from symex.core import SBytes
                w.it.opaque_decode = DecodedLine
                atoms = list(stream.bs)
                chunks = [SBytes(atoms[a:b]) for a, b in zip(bounds, bounds[1:])]
            else:
                atoms = list(stream)
                chunks = [bytes(atoms[a:b]) for a, b in zip(bounds, bounds[1:])]
            w.info = {"stream": stream, "cuts": cuts, "delivered_by": via}
            try:
                if via == "protocol":
                    for ch in chunks:
                        w.call(proto.data_received, ch)
                else:
                    feed_through_tcp_reader(w, env, proto, chunks)
            except Exception as exc:
                w.escaped(exc, "data_received raised")
            # reference: split of the whole stream at LF (positions decided on this path)
            want, cur = [], []
            for b in atoms:
                if w.is_true(w.eq(C.as_int(b), 10)):
                    want.append(cur)
                    cur = []
                else:
                    cur.append(b)
            got = [args[1] for args in lines]
            # blank lines are rejected by the decoder in any case: a handler may drop them early
            want = [e_ for e_ in want if not is_blank(w, e_)]

            def atoms_of(x):
                if isinstance(x, DecodedLine):
                    return list(x.atoms)
                if isinstance(x, str):
                    return list(x.encode("utf-8"))
                return list(x.cs)
            got = [g_ for g_ in got if not is_blank(w, atoms_of(g_))]
            w.check(len(got) == len(want), "number of delivered lines depends on the chunking")
            for g_, e_ in zip(got, want):
                if w.symbolic and isinstance(g_, DecodedLine):
                    piecewise_equal(w, g_)
                if w.symbolic:
                    ga = list(g_.atoms) if isinstance(g_, DecodedLine) else \
                        [ord(c) for c in g_] if isinstance(g_, str) else list(g_.cs)
                    w.check(len(ga) == len(e_) and w.truth(w.and_(*[w.eq(C.as_int(x), C.as_int(y))
                                                                     for x, y in zip(ga, e_)])),
                            "delivered line differs from the split of the whole stream")
                else:
                    w.check(g_ == bytes(e_).decode("utf-8", "replace"),
                            "delivered line differs from the split of the whole stream")
            buf = proto.buffer
            rest = list(buf.atoms) if hasattr(buf, "atoms") else \
                list(buf.cs) if hasattr(buf, "cs") else \
                list(buf.encode()) if isinstance(buf, str) else list(buf)
            w.check(len(rest) == len(cur), "bytes after the last LF are not kept buffered")
            w.goal("lines" if want else "no-line")
    return fn


def feed_through_tcp_reader(w, env, proto, chunks):
    """The threaded TCP gateway's reader loop (TCPTransport.run) with a socket that delivers the
    chunks one recv() at a time, then the user stops the gateway."""
    import select as _select
    import time as _time
    from mysensors import gateway_tcp
    pending = [c for c in chunks]
    holder = {}

    class Sock:
        __symex_native__ = True

        def setblocking(self, flag):
            pass

        def recv(self, n):
            return pending.pop(0)

        def close(self):
            pass
    sock = Sock()
    env.add(_select.select, lambda a, k: ([sock] if pending else [], [sock], []), "select.select")

    def sleeper(a, k):
        if not pending:
            holder["t"].alive = False
        return None
    env.add(_time.sleep, sleeper, "time.sleep")

    def check_conn():
        return None
    check_conn.__symex_native__ = True
    with env.installed():
        t = w.new(gateway_tcp.TCPTransport, sock, C.Factory(proto), check_conn)
        holder["t"] = t
        w.call(t.run)


def two_lines(versions, shapes):
    """(b) two lines: threaded with both queued before the pump runs (one chunk), threaded with
    the first drained before the second is queued (two chunks), asyncio (inline): same state and
    the same ordered emissions."""
    def fn(w):
        version = w.pick(versions, "version")
        shape = w.pick(shapes, "shape")
        env = C.make_env(w)
        with env.installed():
            l1 = [w.fresh_int(f"a.{n}") for n in C.FIELDS[:5]]
            l2 = [w.fresh_int(f"b.{n}") for n in C.FIELDS[:5]]
            p1 = C.wire_payload(w, "a.payload", 1)
            p2 = C.wire_payload(w, "b.payload", 1)
            # the second line is one with a direct reply (config / time / id request / value
            # request): these are the ones whose reply can overtake jobs queued by the first
            w.assume_fast(w.or_(w.eq(l2[2], 2),
                                w.and_(w.eq(l2[2], 3), w.or_(w.eq(l2[4], 6), w.eq(l2[4], 1),
                                                             w.eq(l2[4], 3)))))
            line1 = C.structured_line(w, l1, p1)
            line2 = C.structured_line(w, l2, p2)
            w.info = {"version": version, "shape": shape, "line1": line1, "line2": line2}
            if C.classify(w, version, line1) != "accepted" or \
                    C.classify(w, version, line2) != "accepted":
                w.goal("rejected")
                return
            runs = {}
            tape = w.tape()
            for mode in ("one-chunk", "two-chunks", "asyncio"):
                with w.replaying(tape):
                    flavour = "async" if mode == "asyncio" else "sync"
                    g = C.make_gateway(w, version, flavour)
                    ids = C.gen_network(w, g, shape)
                tasks = g.gw.tasks
                try:
                    if mode == "one-chunk":
                        w.call(tasks.add_job, g.gw.logic, line1)
                        w.call(tasks.add_job, g.gw.logic, line2)
                        reply = w.call(tasks.run_job)  # logic(line1), as the pump does
                        w.call(tasks.transport.send, reply)
                        followups = len(tasks.queue) - 1
                        C.drain(w, g)
                    else:
                        C.step_line(w, g, line1)
                        C.step_line(w, g, line2)
                except Exception as exc:
                    w.escaped(exc, f"pump raised[{mode}]")
                runs[mode] = (stepref.project(g.gw), C.emissions(g))
            base_state, base_out = runs["two-chunks"]
            tag = ("the first line queued follow-up jobs (presentation request / wake-up burst) "
                   "behind the already queued second line" if followups > 0
                   else "the first line queued nothing")
            for mode in ("one-chunk", "asyncio"):
                st, out = runs[mode]
                w.check(stepref.state_eq(w, st, base_state),
                        f"resulting state depends on arrival mode ({mode} vs two-chunks)")
                w.check(len(out) == len(base_out) and
                        w.truth(w.and_(*[C.line_eq(w, a, b) for a, b in zip(out, base_out)])) is True
                        if not w.symbolic else
                        (len(out) == len(base_out) and w.and_(*[C.line_eq(w, a, b) for a, b in zip(out, base_out)])),
                        f"order of emitted commands depends on arrival mode ({mode} vs "
                        f"two-chunks)[{tag}]")
            w.goal("compared")
    return fn


def build(tier):
    q = tier == "quick"
    hs = [
        Harness("segmentation", segmentation(5 if q else 7, 3),
                {"stream_bytes_max": 5 if q else 7, "chunks": 3, "bytes": "symbolic 0..255",
                 "delivered_by": ["protocol.data_received", "TCPTransport.run (recv per chunk)"],
                 "decode": "uninterpreted function of the byte tuple"},
                goals=["lines", "no-line"],
                doc="Packetizer/LineReader framing is independent of the chunking"),
        Harness("two-lines", two_lines(["2.2"] if q else C.VERSIONS,
                                       [[], ["sleep", "awake"]]),
                {"lines": 2, "payload_atoms_max": 1, "modes": ["one-chunk", "two-chunks", "asyncio"],
                 "second_line": "value request or internal config/time/id request"},
                goals=["compared"], timeout_ms=30000,
                expected_cuts=["explicit digits of an integer with more than"],
                doc="state and ordered emissions are the same for all arrival modes / flavours"),
    ]
    return {
        "harnesses": hs,
        "level_text": "symbolic execution of the real data_received/Packetizer framing over a "
                      "symbolic byte stream cut at symbolic positions, and a two-line comparison "
                      "of the threaded gateway (lines queued together vs one after the other) "
                      "with the asyncio gateway from arbitrary pre-states",
        "assumptions": ["UTF-8 decoding is a function of the line's bytes",
                        "pyserial's Packetizer/LineReader are interpreted from their source"],
        "outside": ["more than two queued lines", "asyncio loop scheduling between lines",
                    "streams longer than the bound"],
        "stubs": ["connection object -> recording fake"],
        "budget_s": 3000 if q else 18000,
    }
