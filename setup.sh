#!/bin/sh
# Build the overlay venv used by every check: /venv (the repository's own environment, left
# untouched) + z3-solver from the offline wheelhouse.  Idempotent; needs no network.
set -e
cd "$(dirname "$0")"
V=.venv
if [ -x "$V/bin/python" ] && "$V/bin/python" -c "import z3, voluptuous, mysensors" 2>/dev/null; then
    exit 0
fi
rm -rf "$V"
/venv/bin/python -m venv "$V"
SP=$("$V/bin/python" -c "import sysconfig; print(sysconfig.get_paths()['purelib'])")
printf "import site; site.addsitedir('/venv/lib/python3.12/site-packages')\n" > "$SP/_base.pth"
PIP_NO_INDEX=1 "$V/bin/python" -m pip install -q --no-index --find-links /opt/veriftools/wheels z3-solver
"$V/bin/python" -c "import z3, voluptuous, mysensors; print('verif venv ready: z3', z3.get_version_string())"
