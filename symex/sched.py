"""Modelled threads: every modelled thread runs on a real Python thread, a baton guarantees that
exactly one runs, and at every statement boundary of repository code the scheduler may pre-empt
(a path decision, bounded by a pre-emption budget).  Schedules are therefore explored by the same
exhaustive worklist as data.

Symbolic mode: the yield points come from the interpreter's statement hook.  Concrete (replay)
mode: the real code runs under sys.settrace and yields at the first line of every statement of
repository functions, which are the same points.
"""
import ast
import sys
import threading
from threading import Event as _Event
from threading import Thread as _Thread  # bound now: the environment stubs patch threading.Thread

from .core import Infeasible, Signal
from .interp import Interp

import os as _os

REPO_PREFIX = _os.environ.get("VERIF_REPO", "/repo") + "/mysensors/"


class SchedLock:
    """Replacement for threading.Lock that blocks through the scheduler."""

    __symex_native__ = True

    def __init__(self, sched):
        self.sched = sched
        self.owner = None

    def __enter__(self):
        self.sched.acquire(self)
        return self

    def __exit__(self, *exc):
        self.owner = None
        return False

    def acquire(self, *a, **k):
        self.sched.acquire(self)
        return True

    def release(self):
        self.owner = None


class _Cond:
    """Lock-like view of a condition for the runnable() test: 'owned' while it does not hold."""

    def __init__(self, pred):
        self.pred = pred

    @property
    def owner(self):
        return None if self.pred() else self


class MThread:
    def __init__(self, sched, tid, name, body):
        self.sched, self.tid, self.name, self.body = sched, tid, name, body
        self.go = _Event()
        self.done = False
        self.exc = None
        self.signal = None
        self.blocked_on = None
        self.started = False
        self.thread = _Thread(target=self._run, daemon=True)
        self.call = None

    def _run(self):
        self.go.wait()
        self.go.clear()
        try:
            if self.sched.abort:
                raise Infeasible()
            self.sched.enter_thread(self)
            self.body(self.call)
        except Signal as s:
            self.signal = s
        except BaseException as e:  # noqa: BLE001 - recorded for the harness
            self.exc = e
        finally:
            sys.settrace(None)
            self.done = True
            self.sched.back.set()


class Sched:
    def __init__(self, w, budget, atomic=()):
        self.w = w
        self.budget = budget
        # repository modules whose functions only touch objects local to the calling thread:
        # no pre-emption points inside them (a switch there is equivalent to one before the call)
        self.atomic = tuple(atomic)
        self.threads = []
        self.back = _Event()
        self.trace = []
        self.abort = False
        self.current = None
        self.nchoice = 0
        self._stmt_lines = {}

    # -- threads ------------------------------------------------------------------------------
    def spawn(self, name, body):
        t = MThread(self, len(self.threads), name, body)
        w = self.w
        if w.symbolic:
            it = Interp(w.p)
            it.stubs = w.it.stubs
            it.call_body = _where_wrapper(it)
            it.on_stmt = lambda s, f, t=t: self._stmt_hook(t, s, f)
            t.call = lambda fn, *a, **k: it.call(fn, list(a), k)
        else:
            t.call = lambda fn, *a, **k: fn(*a, **k)
        self.threads.append(t)
        t.thread.start()
        return t

    def enter_thread(self, t):
        if not self.w.symbolic:
            sys.settrace(lambda frame, event, arg, t=t: self._global_trace(t, frame))

    # -- yield points -------------------------------------------------------------------------
    def _stmt_hook(self, t, s, f):
        mod = getattr(f.fn, "__module__", "") or ""
        if isinstance(s, ast.Expr) and isinstance(s.value, ast.Constant):
            return  # docstrings / bare constants compile to nothing: no line event natively
        if mod.startswith("mysensors") and mod not in self.atomic:
            self.yield_point(t, f"{getattr(f.fn, '__name__', '?')}:{s.lineno}")

    def _lines(self, filename):
        if filename not in self._stmt_lines:
            with open(filename) as fh:
                tree = ast.parse(fh.read())
            starts = {}
            for node in ast.walk(tree):
                if isinstance(node, ast.stmt) and not isinstance(
                        node, (ast.FunctionDef, ast.AsyncFunctionDef, ast.ClassDef)):
                    starts[node.lineno] = max(starts.get(node.lineno, 0),
                                              getattr(node, "end_lineno", node.lineno))
            self._stmt_lines[filename] = starts
        return self._stmt_lines[filename]

    def _global_trace(self, t, frame):
        fn = frame.f_code.co_filename
        if not fn.startswith(REPO_PREFIX):
            return None
        if ("mysensors." + fn[len(REPO_PREFIX):-3].replace("/", ".")) in self.atomic:
            return None
        starts = self._lines(fn)
        state = {"span": None}

        def local(frame, event, arg):
            if event == "line":
                ln = frame.f_lineno
                span = state["span"]
                if ln in starts:
                    if span is not None and span[0] == ln and span[2]:
                        # back on the first line of a multi-line statement: not a new statement
                        state["span"] = (span[0], span[1], False)
                    else:
                        state["span"] = (ln, starts[ln], False)
                        self.yield_point(t, f"{frame.f_code.co_name}:{ln}")
                elif span is not None and span[0] < ln <= span[1]:
                    state["span"] = (span[0], span[1], True)
            return local
        return local

    def yield_point(self, t, label):
        self.trace.append((t.name, label))
        self.back.set()
        t.go.wait()
        t.go.clear()
        if self.abort:
            raise Infeasible()

    def acquire(self, lock):
        t = self.current
        while lock.owner is not None and lock.owner is not t:
            t.blocked_on = lock
            self.yield_point(t, "blocked")
        t.blocked_on = None
        lock.owner = t

    def wait_until(self, pred, label="wait"):
        """The current thread sleeps / polls until pred() holds (idle polling iterations that
        change nothing are abstracted to one blocking wait)."""
        t = self.current
        cond = _Cond(pred)
        while not pred():
            t.blocked_on = cond
            self.yield_point(t, label)
        t.blocked_on = None

    # -- the scheduler loop ---------------------------------------------------------------------
    def runnable(self):
        return [t for t in self.threads
                if not t.done and not (t.blocked_on is not None and t.blocked_on.owner is not None)]

    def _choose(self, n, what):
        self.nchoice += 1
        return self.w.choose(n, f"sched{self.nchoice}:{what}")

    def run(self):
        cur = None
        try:
            while True:
                r = self.runnable()
                if not r:
                    if any(not t.done for t in self.threads):
                        raise RuntimeError("deadlock among modelled threads")
                    break
                if cur is None or cur not in r:
                    cur = r[self._choose(len(r), "next")] if len(r) > 1 else r[0]
                elif len(r) > 1 and self.budget > 0:
                    others = [t for t in r if t is not cur]
                    k = self._choose(len(others) + 1, "preempt")
                    if k > 0:
                        self.budget -= 1
                        cur = others[k - 1]
                self.current = cur
                self.back.clear()
                cur.go.set()
                self.back.wait()
                for t in self.threads:
                    if t.signal is not None:
                        raise t.signal
        finally:
            self.abort = True
            for u in self.threads:
                if not u.done:
                    u.go.set()
            for u in self.threads:
                u.thread.join(timeout=5)


def _where_wrapper(it):
    from .world import _install_where
    _install_where(it)
    return it.call_body
