"""The harness-facing API.  A harness is written once against `World` and runs in two modes:

* symbolic  - fresh values are solver terms, calls into the repository go through the AST
  interpreter, `check` asks the solver whether the assertion can fail on this path;
* concrete  - the values of a solver model are substituted, calls run natively under CPython
  (only the environment fakes stay in place), `check` evaluates a plain bool.  This is the replay
  back-end: a counterexample is reported only if it reproduces here.
"""
import collections
import enum
import traceback

import z3

from . import models, strs
from .core import (
    Cut, Infeasible, Opaque, Path, PathDone, Render, SBool, SBytes, SInt, SReal, SStr, Signal,
    Unsupported, concretize, is_prog, is_sym, lift_str, mk_bool, mk_int, zbool, zint,
)
from .interp import Closure, Interp, contains_sym


class _TapePath:
    """Path proxy that records (first use) or replays (later uses) the fresh values and choices
    made inside a `with w.replaying(tape)` block, so that the same symbolic state can be built
    more than once."""

    def __init__(self, real, tape):
        self.__dict__["_real"] = real
        self.__dict__["_tape"] = tape
        self.__dict__["_pos"] = 0
        self.__dict__["_rec"] = not tape["done"]

    def __getattr__(self, name):
        return getattr(self._real, name)

    def __setattr__(self, name, value):
        setattr(self._real, name, value)

    def _do(self, fn, *a, **k):
        if self._rec:
            v = fn(*a, **k)
            self._tape["values"].append(v)
            return v
        v = self._tape["values"][self._pos]
        self.__dict__["_pos"] += 1
        return v

    def fresh_int(self, *a, **k):
        return self._do(self._real.fresh_int, *a, **k)

    def fresh_bool(self, *a, **k):
        return self._do(self._real.fresh_bool, *a, **k)

    def fresh_real(self, *a, **k):
        return self._do(self._real.fresh_real, *a, **k)

    def fresh_str(self, *a, **k):
        return self._do(self._real.fresh_str, *a, **k)

    def fresh_bytes(self, *a, **k):
        return self._do(self._real.fresh_bytes, *a, **k)

    def choose(self, *a, **k):
        return self._do(self._real.choose, *a, **k)


class ViolationFound(Signal):
    def __init__(self, label, detail=None):
        super().__init__(label)
        self.label = label
        self.detail = detail


def exc_where(exc):
    """Innermost repository function an exception passed through (symbolic: recorded by the
    interpreter; native: from the traceback)."""
    w = getattr(exc, "_symex_where", None)
    if w:
        return w
    tb = exc.__traceback__
    where = None
    while tb is not None:
        co = tb.tb_frame.f_code
        if "/mysensors/" in co.co_filename and "/site-packages/" not in co.co_filename:
            where = getattr(co, "co_qualname", co.co_name)
        tb = tb.tb_next
    return where or "?"


class World:
    symbolic = True
    __symex_opaque__ = True

    def __init__(self, path, env_factory=None):
        self.p = path
        self.it = Interp(path)
        _install_where(self.it)
        self.env = None
        self.info = {}  # harness-provided description of the case (for samples / replay files)

    # -- values ---------------------------------------------------------------------------------
    def fresh_int(self, name, lo=None, hi=None):
        return self.p.fresh_int(name, lo, hi)

    def fresh_bool(self, name):
        return self.p.fresh_bool(name)

    def fresh_real(self, name, lo=None, hi=None):
        return self.p.fresh_real(name, lo, hi)

    def fresh_str(self, name, maxlen, minlen=0, alphabet=None):
        return self.p.fresh_str(name, maxlen, minlen, alphabet)

    def fresh_bytes(self, name, n):
        return self.p.fresh_bytes(name, n)

    def choose(self, n, label):
        return self.p.choose(n, label)

    def pick(self, options, label):
        options = list(options)
        return options[self.p.choose(len(options), label)]

    def flag(self, label):
        """Harness-level boolean fork."""
        return bool(self.p.choose(2, label))

    def assume(self, cond):
        if isinstance(cond, bool):
            if not cond:
                raise Infeasible()
            return
        self.p.assume(cond)

    def assume_fast(self, cond):
        """Constrain without a feasibility check (for constraints on fresh values that are
        satisfiable by construction; the next branch notices an unsatisfiable path anyway)."""
        if isinstance(cond, bool):
            if not cond:
                raise Infeasible()
            return
        self.p.add(zbool(cond))

    def cut(self, reason):
        raise Cut("harness: " + reason)

    def tape(self):
        return {"values": [], "done": False}

    def replaying(self, tape):
        import contextlib

        @contextlib.contextmanager
        def cm():
            real = self.p
            self.p = _TapePath(real, tape)
            try:
                yield
            finally:
                self.p = real
                tape["done"] = True
        return cm()

    def goal(self, name):
        self.p.goal(name)

    # -- calls ----------------------------------------------------------------------------------
    def call(self, fn, *args, **kwargs):
        return self.it.call(fn, list(args), kwargs)

    def new(self, cls, *args, **kwargs):
        return self.it.call(cls, list(args), kwargs)

    def get(self, obj, name):
        return self.it.getattr(obj, name)

    def set(self, obj, name, value):
        self.it.setattr(obj, name, value)

    def truth(self, v):
        return self.it.truth(v)

    def run_coro(self, c):
        return self.it.await_(c)

    # -- terms ----------------------------------------------------------------------------------
    def eq(self, a, b):
        return struct_eq(self, a, b)

    def ne(self, a, b):
        return self.not_(self.eq(a, b))

    def not_(self, a):
        if isinstance(a, bool):
            return not a
        return mk_bool(z3.Not(zbool(a)))

    def and_(self, *xs):
        out = []
        for x in xs:
            if isinstance(x, bool):
                if not x:
                    return False
                continue
            out.append(zbool(x))
        return mk_bool(z3.And(out)) if out else True

    def or_(self, *xs):
        out = []
        for x in xs:
            if isinstance(x, bool):
                if x:
                    return True
                continue
            out.append(zbool(x))
        return mk_bool(z3.Or(out)) if out else False

    def implies(self, a, b):
        return self.or_(self.not_(a), b)

    def lt(self, a, b):
        return models.sym_order(self.it, __import__("ast").Lt, a, b)

    def le(self, a, b):
        return models.sym_order(self.it, __import__("ast").LtE, a, b)

    def add(self, a, b):
        r = models.binop(self.it, __import__("ast").Add(), a, b)
        return a + b if r is models.MISSING else r

    def sub(self, a, b):
        r = models.binop(self.it, __import__("ast").Sub(), a, b)
        return a - b if r is models.MISSING else r

    def mul(self, a, b):
        r = models.binop(self.it, __import__("ast").Mult(), a, b)
        return a * b if r is models.MISSING else r

    def ite(self, c, a, b):
        if isinstance(c, bool):
            return a if c else b
        if isinstance(a, (SInt, int)) and isinstance(b, (SInt, int)):
            return mk_int(z3.If(zbool(c), zint(a), zint(b)))
        return a if self.truth(c) else b

    def is_true(self, cond):
        """Fork on a condition at harness level."""
        return self.it.truth(cond)

    def text(self, *parts):
        """Concatenate ints / strs into a string value (ints rendered in decimal)."""
        out = []
        for x in parts:
            if isinstance(x, (SInt,)):
                out.append(Render(x.e))
            elif isinstance(x, bool):
                raise TypeError("bool in text()")
            elif isinstance(x, int):
                out.extend(ord(c) for c in str(int(x)))
            else:
                out.extend(lift_str(x).cs)
        s = SStr(out)
        return s if not s.is_concrete() else "".join(chr(c) for c in s.cs)

    # -- verdicts -------------------------------------------------------------------------------
    nchecks = 0

    def check(self, cond, label, detail=None):
        self.nchecks += 1
        ok, model = self.p.prove(cond if not isinstance(cond, SBool) else cond.e)
        if ok:
            return
        raise ViolationFound(label, self._witness(model, detail))

    def fail(self, label, detail=None):
        raise ViolationFound(label, self._witness(self.p.current_model(), detail))

    def _witness(self, model, detail):
        return {
            "values": _jsonable(self.p.model_values(model)),
            "choices": dict(self.p.choices),
            "info": _jsonable(concretize(self.info, model)),
            "detail": _jsonable(concretize(detail, model)) if detail is not None else None,
        }

    def escaped(self, exc, what):
        """An exception left the code under test.  Engine bugs are never findings."""
        if isinstance(exc, Signal):
            raise exc
        if not is_prog(exc):
            from .core import EngineBug
            raise EngineBug(f"{type(exc).__name__}: {exc}") from exc
        self.fail(f"{what}:{type(exc).__name__}@{exc_where(exc)}")

    def sample(self):
        m = self.p.current_model()
        return {"choices": dict(self.p.choices), "info": _jsonable(concretize(self.info, m)),
                "values": _jsonable(self.p.model_values(m))}


class ConcretePath:
    symbolic = False

    def __init__(self, record):
        self.values = record.get("values", {})
        self.choices_in = record.get("choices", {})
        self.choices = {}
        self.vars = {}
        self.goals = set()
        self.memo = {}

    def _next(self, name, table):
        return Path._uniq(name, table)

    def _val(self, name, default):
        name = self._next(name, self.vars)
        v = self.values.get(name, default)
        self.vars[name] = v
        return v

    def fresh_int(self, name, lo=None, hi=None):
        return int(self._val(name, lo if lo is not None else 0))

    def fresh_bool(self, name):
        return bool(self._val(name, False))

    def fresh_real(self, name, lo=None, hi=None):
        return float(self._val(name, lo if lo is not None else 0.0))

    def fresh_char(self, name):
        return int(self._val(name, 48))

    def fresh_str(self, name, maxlen, minlen=0, alphabet=None):
        n = minlen + self.choose(maxlen - minlen + 1, f"len({name})")
        cs = [self.fresh_char(f"{name}[{i}]") for i in range(n)]
        self._val(name, None)
        return "".join(chr(c) for c in cs)

    def fresh_bytes(self, name, n):
        return bytes(int(self._val(f"{name}[{i}]", 0)) for i in range(n))

    def choose(self, n, label=None):
        if n <= 1:
            return 0
        key = self._next(label, self.choices)
        d = int(self.choices_in.get(key, 0))
        self.choices[key] = d
        return d

    def goal(self, name):
        self.goals.add(name)


class ConcreteWorld(World):
    """Replay back-end: same harness, model values substituted, repository code runs natively."""

    symbolic = False

    def __init__(self, record):
        self.p = ConcretePath(record)
        self.it = None
        self.env = None
        self.info = {}

    def call(self, fn, *args, **kwargs):
        r = fn(*args, **kwargs)
        import inspect
        if inspect.iscoroutine(r):
            return NativeCoro(r)
        return r

    def new(self, cls, *args, **kwargs):
        return cls(*args, **kwargs)

    def get(self, obj, name):
        return getattr(obj, name)

    def set(self, obj, name, value):
        setattr(obj, name, value)

    def truth(self, v):
        return bool(v)

    def run_coro(self, c):
        import inspect
        if isinstance(c, NativeCoro):
            return c.run()
        if inspect.iscoroutine(c):
            return NativeCoro(c).run()
        raise TypeError("not a coroutine")

    def assume(self, cond):
        if not cond:
            raise Infeasible()

    assume_fast = assume

    def not_(self, a):
        return not a

    def and_(self, *xs):
        return all(xs)

    def or_(self, *xs):
        return any(xs)

    def lt(self, a, b):
        return a < b

    def le(self, a, b):
        return a <= b

    def add(self, a, b):
        return a + b

    def sub(self, a, b):
        return a - b

    def mul(self, a, b):
        return a * b

    def ite(self, c, a, b):
        return a if c else b

    def is_true(self, cond):
        return bool(cond)

    def text(self, *parts):
        return "".join(str(int(x)) if isinstance(x, int) else x for x in parts)

    def check(self, cond, label, detail=None):
        if not cond:
            raise ViolationFound(label, {"detail": _jsonable(detail), "info": _jsonable(self.info)})

    def fail(self, label, detail=None):
        raise ViolationFound(label, {"detail": _jsonable(detail), "info": _jsonable(self.info)})

    def escaped(self, exc, what):
        if isinstance(exc, Signal):
            raise exc
        self.fail(f"{what}:{type(exc).__name__}@{exc_where(exc)}",
                  "".join(traceback.format_exception(exc))[-1500:])

    def sample(self):
        return {"choices": dict(self.p.choices), "info": _jsonable(self.info)}


class NativeCoro:
    """Drive a real coroutine to completion synchronously (it only ever awaits our fakes)."""

    def __init__(self, coro):
        self.coro = coro

    def run(self):
        try:
            while True:
                self.coro.send(None)
        except StopIteration as stop:
            return stop.value

    def close(self):
        self.coro.close()


def _install_where(it):
    orig = it.call_body

    def call_body(fn, args, kwargs):
        try:
            return orig(fn, args, kwargs)
        except Signal:
            raise
        except BaseException as exc:  # incl. asyncio.CancelledError
            if getattr(exc, "_symex_bind", False):
                exc._symex_bind = False  # argument binding failed: attribute it to the caller
                raise
            if getattr(exc, "_symex_where", None) is None:
                try:
                    exc._symex_where = fn.__qualname__
                except Exception:
                    pass
            raise
    it.call_body = call_body


# ------------------------------------------------------------------------------------------------
def struct_eq(w, a, b):
    """Structural equality of snapshots: bool or SBool."""
    if not w.symbolic:
        return a == b
    if isinstance(a, (tuple, list)) and isinstance(b, (tuple, list)):
        if len(a) != len(b):
            return False
        conj = []
        for x, y in zip(a, b):
            r = struct_eq(w, x, y)
            if r is False:
                return False
            if r is not True:
                conj.append(zbool(r))
        return mk_bool(z3.And(conj)) if conj else True
    if isinstance(a, dict) and isinstance(b, dict):
        return struct_eq(w, sorted_items(w, a), sorted_items(w, b))
    if a is None or b is None:
        return a is b
    return models.sym_eq(w.it, a, b)


def sorted_items(w, d):
    return tuple((k, v) for k, v in d.items())


def _jsonable(v):
    if isinstance(v, dict):
        return {str(k): _jsonable(x) for k, x in v.items()}
    if isinstance(v, (list, tuple, set, frozenset, collections.deque)):
        return [_jsonable(x) for x in v]
    if isinstance(v, bytes):
        return {"bytes": v.hex()}
    if isinstance(v, enum.Enum):
        return int(v.value) if isinstance(v.value, int) else str(v.value)
    if isinstance(v, (str, int, float, bool)) or v is None:
        return v
    return repr(v)
