"""Environment stubs shared by both execution modes.

Symbolic mode: registered in the interpreter's stub table (keyed by the identity of the real
function object).  Concrete mode: the same Python callables are patched into the modules for the
duration of the replay.  Every stub returns an arbitrary value of its type, constrained only by
its documented contract.
"""
import calendar
import contextlib
import time
import timeit
from unittest import mock

from .core import Opaque, prog


def preload():
    """Import every repository module before anything is patched (replay mode patches module
    attributes such as threading.Thread, which must not be in place while a module body runs)."""
    import importlib
    for name in ("mysensors", "mysensors.gateway_mqtt", "mysensors.gateway_serial",
                 "mysensors.gateway_tcp", "mysensors.persistence", "mysensors.ota",
                 "mysensors.task", "mysensors.transport", "mysensors.handler"):
        importlib.import_module(name)
    for v in ("1.4", "1.5", "2.0", "2.1", "2.2"):
        from mysensors.const import get_const
        get_const(v)


class Token:
    def __init__(self, name):
        self.name = name

    def __repr__(self):
        return f"<{self.name}>"


class Done:
    """An awaitable that is already complete (synchronous await model)."""

    __symex_native__ = True

    def __init__(self, value=None, exc=None):
        self.value, self.exc = value, exc

    def __symex_await__(self, it):
        if self.exc is not None:
            raise prog(self.exc)
        return self.value

    def __await__(self):
        if self.exc is not None:
            raise self.exc
        return self.value
        yield  # pragma: no cover - makes this a generator


class FakeTask:
    """loop.create_task(coro): recorded; runs when the harness (or an awaiter) drives it."""

    __symex_native__ = True

    def __init__(self, env, coro):
        self.env, self.coro = env, coro
        self.cancel_requested = False
        self.finished = False
        self.started = False
        self.was_cancelled = False
        self.result = None

    def cancel(self):
        if self.finished:
            return False
        self.cancel_requested = True
        return True

    def cancelled(self):
        return self.was_cancelled

    def done(self):
        return self.finished

    def run(self):
        """The task gets to run (the loop schedules it, or somebody awaits it).  asyncio: a task
        that was cancelled before its first step never runs its body - it ends cancelled and its
        awaiter gets CancelledError.  Whether the loop had a turn between create_task() and the
        cancel is the harness's choice (loop.tasks_start_at_once, default: it had)."""
        import asyncio
        if not self.finished:
            if self.cancel_requested and not self.started and not self.env.loop.tasks_start_at_once:
                self.finished = self.was_cancelled = True
            else:
                self.started = True
                self.finished = True
                self.result = self.env.w.run_coro(self.coro)
        if self.was_cancelled:
            raise prog(asyncio.CancelledError())
        return self.result

    def __symex_await__(self, it):
        return self.run()

    def __await__(self):
        return self.run()
        yield  # pragma: no cover


class FakeHandle:
    __symex_native__ = True

    def __init__(self, delay, fn, args):
        self.delay, self.fn, self.args = delay, fn, args
        self.cancelled = False

    def cancel(self):
        self.cancelled = True


class FakeLoop:
    """Single-threaded event loop model: run-to-await atomicity, executor jobs run inline."""

    __symex_native__ = True

    def __init__(self, env):
        self.env = env
        self.tasks = []
        self.handles = []
        self.connections = []
        self.tasks_start_at_once = True  # False: a new task has not run a step until driven

    def run_in_executor(self, executor, fn, *args):
        try:
            return Done(self.env.w.call(fn, *args))
        except Exception as exc:  # delivered to the awaiter
            return Done(exc=exc)

    def create_task(self, coro):
        t = FakeTask(self.env, coro)
        self.tasks.append(t)
        return t

    def call_later(self, delay, fn, *args):
        h = FakeHandle(delay, fn, args)
        self.handles.append(h)
        return h

    def create_connection(self, factory, *args, **kwargs):
        return self.env.create_connection(factory, args, kwargs)


class FakeTimer:
    """threading.Timer: records; the harness fires it."""

    __symex_native__ = True

    def __init__(self, env, interval, fn):
        self.env, self.interval, self.fn = env, interval, fn
        self.started = False
        self.cancelled = False

    def start(self):
        self.started = True

    def cancel(self):
        self.cancelled = True


class FakeThread:
    """threading.Thread: recorded; the target runs when the harness asks for it."""

    __symex_native__ = True

    def __init__(self, env, target, args):
        self.env, self.target, self.args = env, target, tuple(args)
        self.started = False
        self.daemon = False

    def start(self):
        self.started = True

    def run_now(self):
        return self.env.w.call(self.target, *self.args)


class Env:
    __symex_opaque__ = True

    """Base environment: clock tokens, timegm as an uninterpreted function of the token, logging
    helpers silenced."""

    def __init__(self, w):
        self.w = w
        preload()
        self.local = Token("time.localtime()")
        self.gmt = Token("time.gmtime()")
        self._timegm = {}
        self.sleeps = []
        self.patches = []  # (target string, replacement) for concrete mode
        self.stubs = []  # (real callable, impl(args, kwargs)) for both modes

        self.add(time.localtime, lambda a, k: self.local, "time.localtime")
        self.add(time.gmtime, lambda a, k: self.gmt, "time.gmtime")
        self.add(calendar.timegm, self.timegm, "calendar.timegm")
        self.add(time.sleep, self.sleep, "time.sleep")
        self.now = None
        self.clock_reads = 0
        self.add(time.time, self.time, "time.time")
        self.add(time.monotonic, self.time, "time.monotonic")
        self.add(timeit.default_timer, lambda a, k: 0.0, "mysensors.task.timer")
        import asyncio
        import threading
        self.timers = []
        self.add(threading.Timer, self.make_timer, "threading.Timer")
        self.threads = []
        self.add(threading.Thread, self.make_thread, "threading.Thread")
        self.on_async_sleep = None
        self.loop = FakeLoop(self)
        self.async_sleeps = []
        self.cancel_sleep_at = None  # index of the asyncio.sleep call that gets cancelled
        self.add(asyncio.get_running_loop, lambda a, k: self.loop, "asyncio.get_running_loop")
        self.add(asyncio.get_event_loop, lambda a, k: self.loop, "asyncio.get_event_loop")
        self.add(asyncio.create_task, lambda a, k: self.loop.create_task(a[0]),
                 "asyncio.create_task")
        self.add(asyncio.ensure_future, lambda a, k: self.loop.create_task(a[0]),
                 "asyncio.ensure_future")
        self.add(asyncio.sleep, self.async_sleep, "asyncio.sleep")
        self.add(asyncio.wait_for, lambda a, k: a[0], "asyncio.wait_for")
        try:
            from voluptuous.humanize import humanize_error
            import mysensors
            self.add(humanize_error, lambda a, k: Opaque() if w.symbolic else "invalid",
                     "mysensors.humanize_error")
        except ImportError:  # pragma: no cover
            pass

    def add(self, real, impl, target):
        self.stubs.append((real, impl, target))

    def add_load_fw(self, data):
        """mysensors.ota.load_fw(path) -> fixed binary (the Intel-HEX parser is not encoded)."""
        from mysensors import ota
        self.add(ota.load_fw, lambda a, k: data, "mysensors.task.load_fw")

    def timegm(self, a, k):
        tok = a[0]
        if tok not in (self.local, self.gmt):
            raise prog(TypeError("timegm of an unknown struct_time"))
        if tok not in self._timegm:
            self._timegm[tok] = self.w.fresh_int(
                "timegm_of_localtime" if tok is self.local else "timegm_of_gmtime", 0, 2 ** 33)
        return self._timegm[tok]

    def sleep(self, a, k):
        self.sleeps.append(a[0])
        return None

    def time(self, a, k):
        """time.time(): an arbitrary non-decreasing instant."""
        w = self.w
        if getattr(self, "frozen", None) is not None:
            self.clock_reads += 1
            return self.frozen
        t = w.fresh_real(f"t{self.clock_reads}", 0)
        self.clock_reads += 1
        if self.now is not None:
            w.assume_fast(w.le(self.now, t))
        self.now = t
        return t

    def make_thread(self, a, k):
        t = FakeThread(self, k.get("target"), k.get("args", ()))
        self.threads.append(t)
        return t

    def make_timer(self, a, k):
        t = FakeTimer(self, a[0], a[1])
        self.timers.append(t)
        return t

    def async_sleep(self, a, k):
        import asyncio
        i = len(self.async_sleeps)
        self.async_sleeps.append(a[0])
        if self.on_async_sleep is not None:
            self.on_async_sleep(i)
        if self.cancel_sleep_at is not None and i >= self.cancel_sleep_at:
            return Done(exc=asyncio.CancelledError())
        return Done(None)

    def create_connection(self, factory, args, kwargs):
        raise prog(OSError("no connection scripted"))

    @contextlib.contextmanager
    def installed(self):
        w = self.w
        if w.symbolic:
            for real, impl, _ in self.stubs:
                w.it.stub(real, (lambda impl: lambda it, a, k: impl(a, k))(impl))
            yield self
            return
        with contextlib.ExitStack() as st:
            for real, impl, target in self.stubs:
                fake = (lambda impl: lambda *a, **k: impl(list(a), k))(impl)
                st.enter_context(mock.patch(target, fake))
            yield self
