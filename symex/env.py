"""Environment stubs shared by both execution modes.

Symbolic mode: registered in the interpreter's stub table (keyed by the identity of the real
function object).  Concrete mode: the same Python callables are patched into the modules for the
duration of the replay.  Every stub returns an arbitrary value of its type, constrained only by
its documented contract.
"""
import calendar
import contextlib
import time
import timeit
from unittest import mock

from .core import Opaque, prog


class Token:
    def __init__(self, name):
        self.name = name

    def __repr__(self):
        return f"<{self.name}>"


class Env:
    """Base environment: clock tokens, timegm as an uninterpreted function of the token, logging
    helpers silenced."""

    def __init__(self, w):
        self.w = w
        self.local = Token("time.localtime()")
        self.gmt = Token("time.gmtime()")
        self._timegm = {}
        self.sleeps = []
        self.patches = []  # (target string, replacement) for concrete mode
        self.stubs = []  # (real callable, impl(args, kwargs)) for both modes

        self.add(time.localtime, lambda a, k: self.local, "time.localtime")
        self.add(time.gmtime, lambda a, k: self.gmt, "time.gmtime")
        self.add(calendar.timegm, self.timegm, "calendar.timegm")
        self.add(time.sleep, self.sleep, "time.sleep")
        self.add(timeit.default_timer, lambda a, k: 0.0, "mysensors.task.timer")
        try:
            from voluptuous.humanize import humanize_error
            import mysensors
            self.add(humanize_error, lambda a, k: Opaque() if w.symbolic else "invalid",
                     "mysensors.humanize_error")
        except ImportError:  # pragma: no cover
            pass

    def add(self, real, impl, target):
        self.stubs.append((real, impl, target))

    def add_load_fw(self, data):
        """mysensors.ota.load_fw(path) -> fixed binary (the Intel-HEX parser is not encoded)."""
        from mysensors import ota
        self.add(ota.load_fw, lambda a, k: data, "mysensors.task.load_fw")

    def timegm(self, a, k):
        tok = a[0]
        if tok not in (self.local, self.gmt):
            raise prog(TypeError("timegm of an unknown struct_time"))
        if tok not in self._timegm:
            self._timegm[tok] = self.w.fresh_int(
                "timegm_of_localtime" if tok is self.local else "timegm_of_gmtime", 0, 2 ** 33)
        return self._timegm[tok]

    def sleep(self, a, k):
        self.sleeps.append(a[0])
        return None

    @contextlib.contextmanager
    def installed(self):
        w = self.w
        if w.symbolic:
            for real, impl, _ in self.stubs:
                w.it.stub(real, (lambda impl: lambda it, a, k: impl(a, k))(impl))
            yield self
            return
        with contextlib.ExitStack() as st:
            for real, impl, target in self.stubs:
                fake = (lambda impl: lambda *a, **k: impl(list(a), k))(impl)
                st.enter_context(mock.patch(target, fake))
            yield self
