"""Abstract file system + abstract serialiser for the persistence properties (C06, C11-C15).

Files map a path to (content, durable).  Content is a token:
  ("GOOD", state)      a complete serialisation of `state` (a persisted projection)
  ("PARTIAL", state)   a strict prefix of such a serialisation
  ("EMPTY",)           zero bytes
  ("ZERO",)            zero-filled
Every FS operation the repository performs goes through `op()`, where a crash (process dies,
nothing else runs) or a fault (the operation raises OSError) can be injected at a symbolic
position.  The serialiser stub writes in two chunks; `pickle.load` / `json.load` return a rebuilt
state for GOOD content and raise a member of the tabulated decoder contract otherwise.
"""
import contextlib
import json
import os
import pickle
import types
from unittest import mock

from .core import Signal, prog
from .env import Env


class Crash(Signal):
    """The process died here."""


class FakeFile:
    __symex_native__ = True

    def __init__(self, fs, path, mode):
        self.fs, self.path, self.mode = fs, path, mode
        self.closed = False

    def __enter__(self):
        return self

    def __exit__(self, *exc):
        if self.fs.crashed:
            return False
        i = self.fs.op("close", self.path)
        self.fs.to_os(self.path)  # closing flushes Python's buffer to the OS
        self.closed = True
        self.fs.after(i)
        return False

    def flush(self):
        i = self.fs.op("flush", self.path)
        self.fs.to_os(self.path)
        self.fs.after(i)

    def fileno(self):
        return self

    def write(self, chunk):
        self.fs.op("write", self.path)
        self.fs.rec(self.path)[0] = chunk


class FS(Env):
    OPS = ("open", "write", "flush", "fsync", "close", "rename", "remove")

    def __init__(self, w, fmt="json", contract=None):
        super().__init__(w)
        self.fmt = fmt
        self.files = {}  # path -> [content, durable]
        self.nops = 0
        self.log = []
        self.crash_at = None  # op index after which the process dies
        self.fault_at = None  # op index that raises OSError
        self.dump_fault = False  # the serialiser raises RuntimeError (concurrent mutation)
        self.deny_write = False  # os.access(..., W_OK) answers False
        self.crashed = False
        self.contract = contract or {"json": [ValueError], "pickle": [EOFError]}
        self.snapshot = None  # callable: sensors dict -> persisted projection
        self.rebuild = None  # callable: projection -> sensors dict
        self.loads = []
        self.bad_choice = {}
        self.add(open, self.open, "mysensors.persistence.open")
        for name in ("fsync", "rename", "remove", "access"):
            self.add(getattr(os, name), getattr(self, name), None)
        self.add(os.replace, self.rename, None)
        self.add(os.open, self.os_open, None)  # directory handles for a directory fsync
        self.add(os.close, lambda a, k: None, None)
        self.add(os.unlink, self.remove, None)
        self.add(os.path.isfile, self.isfile, None)
        self.add(os.path.exists, self.isfile, None)
        self.add(os.path.realpath, lambda a, k: a[0], None)
        self.add(pickle.dump, self.dump, None)
        self.add(pickle.load, self.load, None)
        self.add(json.dump, self.dump, None)
        self.add(json.load, self.load, None)

    # -- file records: [latest content (this process' view), durable?, OS content, disk content]
    def rec(self, path):
        r = self.files[path]
        if len(r) == 2:
            r.extend([r[0], r[0] if r[1] else None])
        return r

    def to_os(self, path):
        if path in self.files:
            r = self.rec(path)
            r[2] = r[0]
            r[1] = r[3] is not None and r[3] == r[2]

    # -- fault / crash injection ------------------------------------------------------------
    def op(self, name, path):
        i = self.nops
        self.nops += 1
        self.log.append((name, path))
        if self.fault_at is not None and i == self.fault_at:
            self.fault_at = None  # transient
            raise prog(OSError(f"injected fault at {name} {path}"))
        return i

    def after(self, i):
        if self.crash_at is not None and i == self.crash_at:
            self.crashed = True
            raise Crash(f"crash after op {i}")

    # -- stubs --------------------------------------------------------------------------------
    def open(self, a, k):
        path, mode = a[0], (a[1] if len(a) > 1 else k.get("mode", "r"))
        i = self.op("open", path)
        if "w" in mode:
            self.files[path] = [("EMPTY",), False, ("EMPTY",), None]
        elif path not in self.files:
            raise prog(FileNotFoundError(path))
        self.after(i)
        return FakeFile(self, path, mode)

    def os_open(self, a, k):
        return FakeFile(self, a[0], "dir")

    def fsync(self, a, k):
        fh = a[0]
        if getattr(fh, "mode", "") == "dir" or fh.path not in self.files:
            i = self.op("fsync", getattr(fh, "path", "?"))  # directory entry: nothing to track
            self.after(i)
            return
        i = self.op("fsync", fh.path)
        r = self.rec(fh.path)
        r[3] = r[2]  # what the OS has is now on disk (unflushed Python buffers are not)
        r[1] = r[0] == r[2]
        self.after(i)

    def rename(self, a, k):
        src, dst = a
        i = self.op("rename", f"{src}->{dst}")
        if src not in self.files:
            raise prog(FileNotFoundError(src))
        self.files[dst] = self.files.pop(src)
        self.after(i)

    def remove(self, a, k):
        i = self.op("remove", a[0])
        if a[0] not in self.files:
            raise prog(FileNotFoundError(a[0]))
        del self.files[a[0]]
        self.after(i)

    def access(self, a, k):
        if self.deny_write and len(a) > 1 and a[1] == os.W_OK:
            return False  # directory / file not writable right now (transient)
        return True

    def isfile(self, a, k):
        return a[0] in self.files

    def dump(self, a, k):
        obj, fh = a[0], a[1]
        if self.dump_fault:
            self.dump_fault = False
            r = self.rec(fh.path)
            r[0], r[1] = ("PARTIAL", None), False
            raise prog(RuntimeError("dictionary changed size during iteration"))
        state = self.snapshot(obj)
        i = self.op("write", fh.path)
        r = self.rec(fh.path)
        r[0], r[1] = ("PARTIAL", state), False  # in Python's buffer until flush()/close()
        self.after(i)
        i = self.op("write", fh.path)
        r[0], r[1] = ("GOOD", state), False
        self.after(i)

    def load(self, a, k):
        fh = a[0]
        content = self.files[fh.path][0]
        self.loads.append((fh.path, content[0]))
        if content[0] == "GOOD":
            return self.rebuild(content[1])
        classes = self.contract[self.fmt]
        idx = self.w.choose(len(classes), f"decoder_exception({fh.path},{content[0]})")
        msg = f"bad {self.fmt} content: {content[0]}"
        exc = None
        for args in ((msg,), (msg, "", 0), ("utf-8", b"\xc3", 0, 1, msg)):
            try:  # json.JSONDecodeError(msg, doc, pos), UnicodeDecodeError(enc, obj, s, e, why)
                exc = classes[idx](*args)
                break
            except TypeError:
                continue
        if exc is None:
            exc = ValueError(msg)
        raise prog(exc)

    # -- crash semantics -----------------------------------------------------------------------
    def after_crash(self, lose_unsynced):
        """What a fresh process finds on disk."""
        for path in list(self.files):
            buf, durable, os_c, disk = self.rec(path)
            # what Python had not flushed dies with the process; what the OS had not synced may
            # be lost with the machine
            seen = os_c
            if lose_unsynced and disk != os_c:
                if disk is not None:
                    seen = disk
                elif os_c[0] in ("GOOD", "PARTIAL"):
                    kind = self.w.pick(["PARTIAL", "EMPTY"], f"lost({path})")
                    seen = (kind, os_c[1]) if kind == "PARTIAL" else ("EMPTY",)
                else:
                    seen = os_c
            self.files[path] = [seen, True, seen, seen]
        self.crashed = False
        self.crash_at = None
        self.fault_at = None

    @contextlib.contextmanager
    def installed(self):
        w = self.w
        if w.symbolic:
            for real, impl, _ in self.stubs:
                w.it.stub(real, (lambda impl: lambda it, a, k: impl(a, k))(impl))
            yield self
            return

        def wrap(impl):
            return lambda *a, **k: impl(list(a), k)
        class _Delegate:
            """Modelled functions first, everything else from the real module."""

            def __init__(self, real, **over):
                self._real = real
                self.__dict__.update(over)

            def __getattr__(self, name):
                return getattr(self._real, name)
        fake_os = _Delegate(
            os, fsync=wrap(self.fsync), rename=wrap(self.rename), replace=wrap(self.rename),
            open=wrap(self.os_open), close=lambda fd: None,
            remove=wrap(self.remove), unlink=wrap(self.remove), access=wrap(self.access),
            path=_Delegate(os.path, isfile=wrap(self.isfile), exists=wrap(self.isfile),
                           realpath=lambda p: p))
        fake_pickle = types.SimpleNamespace(dump=wrap(self.dump), load=wrap(self.load),
                                            HIGHEST_PROTOCOL=pickle.HIGHEST_PROTOCOL,
                                            UnpicklingError=pickle.UnpicklingError)
        fake_json = types.SimpleNamespace(dump=wrap(self.dump), load=wrap(self.load),
                                          JSONEncoder=json.JSONEncoder,
                                          JSONDecoder=json.JSONDecoder,
                                          JSONDecodeError=json.JSONDecodeError)
        with contextlib.ExitStack() as st:
            for real, impl, target in self.stubs:
                if target:
                    st.enter_context(mock.patch(target, wrap(impl), create=True))
            st.enter_context(mock.patch("mysensors.persistence.os", fake_os))
            st.enter_context(mock.patch("mysensors.persistence.pickle", fake_pickle))
            st.enter_context(mock.patch("mysensors.persistence.json", fake_json))
            yield self


def decoder_contract():
    """Tabulate natively which exception classes a load raises on every truncation and on the
    zero-fill of real saved files (three representative states, non-ASCII text included).  The
    files are written by the repository's own _save_json/_save_pickle and read back by its own
    _load_json/_load_pickle, so the writer's and reader's parameters (encoding, ensure_ascii,
    pickle protocol) are whatever the current tree uses."""
    import os as _os
    import shutil
    import sys
    import tempfile
    sys.path.insert(0, _os.environ.get("VERIF_REPO", "/repo"))
    from mysensors.persistence import Persistence
    from mysensors.sensor import Sensor
    states = []
    states.append({})
    a = Sensor(1)
    a.type = 17
    a.sketch_name = "Küche"
    a.add_child_sensor(0, 6, "t")
    a.children[0].values[0] = "20.5"
    states.append({1: a})
    b = Sensor(254)
    b.add_child_sensor(3, 3, "dé")
    b.children[3].values[2] = "1"
    b.children[3].values[3] = "99 µ"
    c = Sensor(0)
    states.append({1: a, 254: b, 0: c})
    out = {"json": set(), "pickle": set()}
    prefix_decodes = {"json": 0, "pickle": 0}
    total = 0
    tmp = tempfile.mkdtemp(prefix="verif_contract_")
    try:
        for st in states:
            for fmt in ("json", "pickle"):
                path = _os.path.join(tmp, f"s.{fmt}")
                writer = Persistence(dict(st), lambda save: None, path)
                getattr(writer, f"_save_{fmt}")(path)
                with open(path, "rb") as fh:
                    data = fh.read()
                variants = [data[:n] for n in range(len(data))] + [b"\x00" * len(data)]
                for v in variants:
                    total += 1
                    with open(path, "wb") as fh:
                        fh.write(v)
                    reader = Persistence({}, lambda save: None, path)
                    try:
                        getattr(reader, f"_load_{fmt}")(path)
                        prefix_decodes[fmt] += 1
                    except Exception as exc:  # noqa: BLE001 - tabulating is the point
                        out[fmt].add(type(exc))
    finally:
        shutil.rmtree(tmp, ignore_errors=True)
    return ({k: sorted(v, key=lambda c: c.__name__) for k, v in out.items()}, prefix_decodes, total)
