"""AST interpreter: executes real function objects from their *current source text* over values
that are ordinary Python objects or solver terms.

Calls leave the interpreter natively only when no argument contains a symbolic value; otherwise a
registered model / stub is used or the path ends Unsupported (INCONCLUSIVE).
"""
import ast
import collections
import enum
import hashlib
import inspect
import logging
import textwrap
import types

import z3

from . import strs
from .core import (
    SYMS, Cut, EngineBug, Opaque, Render, SBool, SBytes, SFloat, SInt, SReal, SStr, Signal,
    Unsupported, is_prog, is_sym, lift_str, lower_str, mk_bool, mk_int, prog, zbool, zint, zreal,
)


class _Return(Signal):
    def __init__(self, value):
        self.value = value


class _Break(Signal):
    pass


class _Continue(Signal):
    pass


MISSING = object()
_AST_CACHE = {}
FUNCS_SEEN = {}  # qualname -> (file, sha1 of source)  -- evidence: functions encoded


_GEN_CACHE = {}


def _is_generator(node):
    """Does this function body yield (nested defs / lambdas not counted)?"""
    k = id(node)
    if k not in _GEN_CACHE:
        found = False
        stack = list(ast.iter_child_nodes(node))
        while stack and not found:
            n = stack.pop()
            if isinstance(n, (ast.FunctionDef, ast.AsyncFunctionDef, ast.Lambda, ast.ClassDef)):
                continue
            if isinstance(n, (ast.Yield, ast.YieldFrom)):
                found = True
            stack.extend(ast.iter_child_nodes(n))
        _GEN_CACHE[k] = found
    return _GEN_CACHE[k]


def func_ast(fn):
    code = fn.__code__
    key = (code.co_filename, code.co_firstlineno, code.co_name)
    node = _AST_CACHE.get(key)
    if node is None:
        src = textwrap.dedent(inspect.getsource(fn))
        node = ast.parse(src).body[0]
        if isinstance(node, ast.Assign):  # lambda assigned to a name
            node = node.value
        if not isinstance(node, (ast.FunctionDef, ast.AsyncFunctionDef, ast.Lambda)):
            lam = [n for n in ast.walk(node) if isinstance(n, ast.Lambda)]
            if len(lam) != 1:
                raise Unsupported(f"cannot locate source of {fn!r}")
            node = lam[0]
        _AST_CACHE[key] = node
        FUNCS_SEEN[f"{fn.__module__}.{fn.__qualname__}"] = (
            code.co_filename, hashlib.sha1(src.encode()).hexdigest()[:12])
    return node


LINES_SEEN = {}  # (file, absolute line) of every repository statement executed symbolically


class Frame:
    __slots__ = ("fn", "locals", "globals", "cells", "parent", "exc", "klass", "self_name",
                 "file", "base")

    def __init__(self, fn, locs, globs, cells=None, parent=None):
        self.fn = fn
        self.locals = locs
        self.globals = globs
        self.cells = cells or {}
        self.parent = parent
        self.exc = None
        code = getattr(fn, "__code__", None)
        if code is not None:
            # statement line numbers are relative to the function's own source snippet
            self.file, self.base = code.co_filename, code.co_firstlineno - 1
            if "/mysensors/" not in self.file or "/site-packages/" in self.file:
                self.file = None
        elif parent is not None:
            self.file, self.base = parent.file, parent.base
        else:
            self.file, self.base = None, 0

    def lookup(self, name):
        f = self
        while f is not None:
            if name in f.locals:
                return f.locals[name]
            if name in f.cells:
                try:
                    return f.cells[name].cell_contents
                except ValueError:
                    raise prog(NameError(f"free variable '{name}' referenced before assignment"))
            f = f.parent
        if name in self.globals:
            return self.globals[name]
        b = self.globals.get("__builtins__", __builtins__)
        if isinstance(b, types.ModuleType):
            b = b.__dict__
        if name in b:
            return b[name]
        raise prog(NameError(f"name '{name}' is not defined"))


class Closure:
    """A function created while interpreting (nested def / lambda)."""

    def __init__(self, interp, node, frame, defaults, kwdefaults, name):
        self.interp = interp
        self.node = node
        self.frame = frame
        self.defaults = defaults
        self.kwdefaults = kwdefaults
        self.__name__ = name
        outer = getattr(getattr(frame, "fn", None), "__qualname__", None)
        self.__qualname__ = f"{outer}.<locals>.{name}" if outer else name
        self.is_async = isinstance(node, ast.AsyncFunctionDef)

    def __call__(self, *args, **kwargs):
        return self.interp.call(self, list(args), kwargs)

    def __repr__(self):
        return f"<closure {self.__name__}>"


class SymSet(list):
    """A set with symbolic members: list-backed, membership / insertion decided by the solver."""

    __symex_native__ = True

    def __init__(self, interp):
        super().__init__()
        self.interp = interp

    def _has(self, v):
        it = self.interp
        return it.truth(it.models.sym_in(it, v, list(self)))

    def add(self, v):
        if not self._has(v):
            self.append(v)

    def discard(self, v):
        it = self.interp
        for i, x in enumerate(list(self)):
            if it.truth(it.models.sym_eq(it, v, x)):
                del self[i]
                return

    def remove(self, v):
        n = len(self)
        self.discard(v)
        if len(self) == n:
            raise prog(KeyError(v))

    def update(self, other):
        for v in other:
            self.add(v)


class Coro:
    """Result of calling an async function: runs when awaited (synchronous await model)."""

    def __init__(self, interp, fn, args, kwargs):
        self.interp, self.fn, self.args, self.kwargs = interp, fn, args, kwargs
        self.done = False

    def run(self):
        self.done = True
        return self.interp.call_body(self.fn, self.args, self.kwargs)

    def close(self):
        self.done = True


class SMethod:
    """Bound method of a symbolic value."""

    def __init__(self, recv, name):
        self.recv, self.name = recv, name


def contains_sym(v, depth=6, seen=None):
    if isinstance(v, SYMS):
        return True
    if v is None or isinstance(v, (int, str, float, bytes, type, types.ModuleType,
                                   types.FunctionType, types.BuiltinFunctionType, enum.Enum)):
        return False
    if depth == 0:
        return False
    if seen is None:
        seen = set()
    if id(v) in seen:
        return False
    seen.add(id(v))
    if isinstance(v, (list, tuple, set, frozenset, collections.deque)):
        return any(contains_sym(x, depth - 1, seen) for x in v)
    if isinstance(v, dict):
        return any(contains_sym(k, depth - 1, seen) or contains_sym(x, depth - 1, seen)
                   for k, x in v.items())
    if isinstance(v, (Closure, Coro, Opaque)) or getattr(v, "__symex_opaque__", False) is True:
        return False  # engine / harness infrastructure, never program data
    if isinstance(v, types.MethodType):
        return contains_sym(v.__self__, depth - 1, seen)
    d = getattr(v, "__dict__", None)
    if isinstance(d, dict):
        return any(contains_sym(x, depth - 1, seen) for x in d.values())
    return False


def sym_type(v):
    if isinstance(v, SStr):
        return str
    if isinstance(v, SBool):
        return bool
    if isinstance(v, SInt):
        return int
    if isinstance(v, SBytes):
        return bytes
    if isinstance(v, (SFloat, SReal)):
        return float
    if isinstance(v, Opaque):
        return str
    return type(v)


class Interp:
    def __init__(self, path, env=None, interp_pred=None):
        self.p = path
        self.env = env
        self.interp_pred = interp_pred or default_interp_pred
        self.stubs = {}  # id(callable) -> (callable, stub(interp, args, kwargs))
        self.type_stubs = []  # (class, stub) matched with isinstance on bound-method receivers
        self.on_stmt = None  # scheduler hook (C16)
        self.yields = []  # stacks of values yielded by the generator functions being evaluated
        self.calls = 0
        self.depth = 0
        from . import models
        self.models = models
        models.install(self)

    # -- registration ---------------------------------------------------------------------------
    def stub(self, fn, impl):
        self.stubs[id(fn)] = (fn, impl)

    # -- exceptions -----------------------------------------------------------------------------
    def nat(self, thunk):
        """Run a piece of concrete Python on behalf of the program; its exceptions are the
        program's."""
        try:
            return thunk()
        except Signal:
            raise
        except Exception as exc:
            raise prog(exc)

    # -- calls ----------------------------------------------------------------------------------
    def interpretable(self, fn):
        return isinstance(fn, types.FunctionType) and self.interp_pred(fn)

    def call(self, fn, args=(), kwargs=None):
        kwargs = kwargs or {}
        args = list(args)
        self.calls += 1
        st = self.stubs.get(id(fn))
        if st is not None and st[0] is fn:
            return st[1](self, args, kwargs)
        if getattr(fn, "__symex_native__", False) or \
                getattr(getattr(fn, "__self__", None), "__symex_native__", False) is True:
            # harness fakes (connections, callbacks, ...) accept symbolic arguments as they are
            return self.nat(lambda: fn(*args, **kwargs))
        if isinstance(fn, Closure):
            if fn.is_async:
                return Coro(self, fn, args, kwargs)
            return self.call_body(fn, args, kwargs)
        if isinstance(fn, SMethod):
            return _lower(self.models.sym_method(self, fn.recv, fn.name, args, kwargs))
        if isinstance(fn, types.MethodType):
            if isinstance(fn.__self__, logging.Logger):
                return None
            f2 = fn.__func__
            st = self.stubs.get(id(f2))
            if st is not None and st[0] is f2:
                return st[1](self, [fn.__self__] + args, kwargs)
            return self.call(f2, [fn.__self__] + args, kwargs)
        if self.interpretable(fn):
            if inspect.iscoroutinefunction(fn):
                return Coro(self, fn, args, kwargs)
            return self.call_body(fn, args, kwargs)
        r = self.models.call_model(self, fn, args, kwargs)
        if r is not MISSING:
            return r
        if isinstance(fn, type):
            return self.instantiate(fn, args, kwargs)
        # native call: only on symbolic-free arguments
        for a in args:
            if contains_sym(a):
                raise Unsupported(f"native call {describe(fn)} with a symbolic argument")
        for a in kwargs.values():
            if contains_sym(a):
                raise Unsupported(f"native call {describe(fn)} with a symbolic argument")
        return self.nat(lambda: fn(*args, **kwargs))

    def instantiate(self, cls, args, kwargs):
        init = None
        for k in cls.__mro__:
            if "__init__" in k.__dict__:
                init = k.__dict__["__init__"]
                break
        new_custom = any("__new__" in k.__dict__ for k in cls.__mro__ if k is not object)
        if self.interpretable(init) and (not new_custom or issubclass(cls, BaseException)):
            obj = cls.__new__(cls)
            self.call_body(init, [obj] + list(args), kwargs)
            return obj
        if issubclass(cls, BaseException):
            # exception objects only store their arguments
            return self.nat(lambda: cls(*args, **kwargs))
        if any(contains_sym(a) for a in args) or any(contains_sym(a) for a in kwargs.values()):
            if self.models.storing_constructor(cls):
                return self.nat(lambda: cls(*args, **kwargs))
            raise Unsupported(f"native constructor {cls.__module__}.{cls.__qualname__} "
                              "with a symbolic argument")
        return self.nat(lambda: cls(*args, **kwargs))

    def call_body(self, fn, args, kwargs):
        if isinstance(fn, Closure):
            node = fn.node
            locs = self.bind(fn.__name__, node.args, fn.defaults, fn.kwdefaults, args, kwargs)
            frame = Frame(fn, locs, fn.frame.globals, None, fn.frame)
        else:
            node = func_ast(fn)
            locs = self.bind(fn.__qualname__, node.args, fn.__defaults__ or (),
                             fn.__kwdefaults__ or {}, args, kwargs)
            cells = {}
            if fn.__closure__:
                cells = dict(zip(fn.__code__.co_freevars, fn.__closure__))
            frame = Frame(fn, locs, fn.__globals__, cells)
        self.depth += 1
        if self.depth > 200:
            raise Unsupported("interpreter recursion depth > 200")
        gen = _is_generator(node)
        if gen:
            self.yields.append([])
        try:
            if isinstance(node, ast.Lambda):
                return self.eval(node.body, frame)
            self.exec_block(node.body, frame)
        except _Return as r:
            if gen:
                return iter(self.yields[-1])
            return r.value
        finally:
            self.depth -= 1
            if gen:
                out = self.yields.pop()
        return iter(out) if gen else None

    def bind(self, qualname, a, defaults, kwdefaults, args, kwargs):
        try:
            return self._bind(qualname, a, defaults, kwdefaults, args, kwargs)
        except TypeError as exc:
            exc._symex_bind = True  # raised at the call site, not inside the callee
            raise

    def _bind(self, qualname, a, defaults, kwdefaults, args, kwargs):
        names = [x.arg for x in a.posonlyargs + a.args]
        locs = {}
        args = list(args)
        kwargs = dict(kwargs)
        first_default = len(names) - len(defaults)
        for i, n in enumerate(names):
            if i < len(args):
                if n in kwargs:
                    raise prog(TypeError(f"{qualname}() got multiple values for argument '{n}'"))
                locs[n] = args[i]
            elif n in kwargs:
                locs[n] = kwargs.pop(n)
            elif i >= first_default:
                locs[n] = defaults[i - first_default]
            else:
                raise prog(TypeError(f"{qualname}() missing 1 required positional argument: '{n}'"))
        extra = args[len(names):]
        if a.vararg:
            locs[a.vararg.arg] = tuple(extra)
        elif extra:
            raise prog(TypeError(
                f"{qualname}() takes {len(names)} positional arguments but {len(args)} were given"))
        for ko in a.kwonlyargs:
            if ko.arg in kwargs:
                locs[ko.arg] = kwargs.pop(ko.arg)
            elif ko.arg in kwdefaults:
                locs[ko.arg] = kwdefaults[ko.arg]
            else:
                raise prog(TypeError(
                    f"{qualname}() missing 1 required keyword-only argument: '{ko.arg}'"))
        if a.kwarg:
            locs[a.kwarg.arg] = kwargs
        elif kwargs:
            raise prog(TypeError(
                f"{qualname}() got an unexpected keyword argument '{next(iter(kwargs))}'"))
        return locs

    # -- truthiness -----------------------------------------------------------------------------
    def truth(self, v):
        if isinstance(v, bool):
            return v
        if isinstance(v, SBool):
            return self.p.branch(v.e)
        if isinstance(v, SInt):
            return self.p.branch(v.e != 0)
        if isinstance(v, SReal):
            return self.p.branch(v.e != 0)
        if isinstance(v, SStr):
            return len(v.cs) > 0
        if isinstance(v, SBytes):
            return len(v.bs) > 0 or (v.src is not None and len(v.src.cs) > 0)
        if isinstance(v, z3.BoolRef):
            return self.p.branch(v)
        if isinstance(v, SFloat):
            raise Unsupported("truth value of a symbolic float")
        if isinstance(v, Opaque):
            return True
        return self.nat(lambda: bool(v))

    # -- statements -----------------------------------------------------------------------------
    def exec_block(self, stmts, f):
        for s in stmts:
            if self.on_stmt is not None:
                self.on_stmt(s, f)
            self.exec(s, f)

    def exec(self, s, f):
        if f.file is not None:
            LINES_SEEN[(f.file, f.base + s.lineno)] = 1
        m = getattr(self, "s_" + type(s).__name__, None)
        if m is None:
            raise Unsupported(f"statement {type(s).__name__}")
        return m(s, f)

    def s_Expr(self, s, f):
        self.eval(s.value, f)

    def s_Pass(self, s, f):
        pass

    def s_Import(self, s, f):
        for a in s.names:
            mod = self.nat(lambda: __import__(a.name))
            f.locals[a.asname or a.name.split(".")[0]] = mod

    def s_ImportFrom(self, s, f):
        import importlib
        pkg = f.globals.get("__package__")
        mod = self.nat(lambda: importlib.import_module("." * s.level + (s.module or ""), pkg))
        for a in s.names:
            f.locals[a.asname or a.name] = self.nat(lambda: getattr(mod, a.name))

    def s_Return(self, s, f):
        raise _Return(self.eval(s.value, f) if s.value else None)

    def s_Assign(self, s, f):
        v = self.eval(s.value, f)
        for t in s.targets:
            self.assign(t, v, f)

    def s_AnnAssign(self, s, f):
        if s.value is not None:
            self.assign(s.target, self.eval(s.value, f), f)

    def s_AugAssign(self, s, f):
        load = _as_load(s.target)
        cur = self.eval(load, f)
        v = self.binop(s.op, cur, self.eval(s.value, f), inplace=True)
        self.assign(s.target, v, f)

    def s_Delete(self, s, f):
        for t in s.targets:
            if isinstance(t, ast.Name):
                if t.id not in f.locals:
                    raise prog(NameError(t.id))
                del f.locals[t.id]
            elif isinstance(t, ast.Subscript):
                obj = self.eval(t.value, f)
                k = self.eval(t.slice, f)
                if isinstance(obj, dict):
                    kk = self.models.dict_find(self, obj, k)
                    if kk is MISSING:
                        raise prog(KeyError(k))
                    dict.__delitem__(obj, kk)
                else:
                    if is_sym(k):
                        raise Unsupported("del with symbolic index")
                    self.nat(lambda: obj.__delitem__(k))
            elif isinstance(t, ast.Attribute):
                obj = self.eval(t.value, f)
                self.nat(lambda: delattr(obj, t.attr))
            else:
                raise Unsupported("del target")

    def assign(self, t, v, f):
        if isinstance(t, ast.Name):
            if t.id in f.locals.get("__nonlocal__", ()):
                ff = f.parent
                while ff is not None:
                    if t.id in ff.locals:
                        ff.locals[t.id] = v
                        return
                    if t.id in ff.cells:
                        ff.cells[t.id].cell_contents = v
                        return
                    ff = ff.parent
                raise Unsupported(f"nonlocal {t.id}: no binding found")
            f.locals[t.id] = v
        elif isinstance(t, ast.Attribute):
            obj = self.eval(t.value, f)
            self.setattr(obj, t.attr, v)
        elif isinstance(t, (ast.Tuple, ast.List)):
            vals = self.iterate(v)
            star = [i for i, e in enumerate(t.elts) if isinstance(e, ast.Starred)]
            if star:
                i = star[0]
                after = len(t.elts) - i - 1
                if len(vals) < len(t.elts) - 1:
                    raise prog(ValueError("not enough values to unpack"))
                for tt, vv in zip(t.elts[:i], vals[:i]):
                    self.assign(tt, vv, f)
                self.assign(t.elts[i].value, list(vals[i:len(vals) - after]), f)
                for tt, vv in zip(t.elts[i + 1:], vals[len(vals) - after:]):
                    self.assign(tt, vv, f)
                return
            if len(vals) < len(t.elts):
                raise prog(ValueError(
                    f"not enough values to unpack (expected {len(t.elts)}, got {len(vals)})"))
            if len(vals) > len(t.elts):
                raise prog(ValueError(f"too many values to unpack (expected {len(t.elts)})"))
            for tt, vv in zip(t.elts, vals):
                self.assign(tt, vv, f)
        elif isinstance(t, ast.Subscript):
            obj = self.eval(t.value, f)
            if isinstance(t.slice, ast.Slice):
                raise Unsupported("slice assignment")
            k = self.eval(t.slice, f)
            self.setitem(obj, k, v)
        else:
            raise Unsupported(f"assignment target {type(t).__name__}")

    def setitem(self, obj, k, v):
        if isinstance(obj, dict):
            self.models.dict_store(self, obj, k, v)
        elif hasattr(obj, "__symex_setitem__"):
            obj.__symex_setitem__(self, k, v)
        else:
            if is_sym(k):
                raise Unsupported("store at a symbolic index")
            self.nat(lambda: obj.__setitem__(k, v))

    def iterate(self, v):
        """Materialise an iterable as a list (all loops here are bounded by concrete structure)."""
        if isinstance(v, SStr):
            if v.has_render():
                v = strs.expand(self.p, v)
            return [SStr([c]) for c in v.cs]
        if isinstance(v, SBytes):
            return [mk_int(b) if not isinstance(b, int) else b for b in self.models.bytes_atoms(self, v)]
        if isinstance(v, SYMS):
            raise prog(TypeError(f"'{sym_type(v).__name__}' object is not iterable"))
        if hasattr(v, "__symex_iter__"):
            return list(v.__symex_iter__(self))
        return self.nat(lambda: list(v))

    def s_If(self, s, f):
        if self.truth(self.eval(s.test, f)):
            self.exec_block(s.body, f)
        else:
            self.exec_block(s.orelse, f)

    LOOP_BOUND = 600

    def _loop_header(self, s, f):
        """Control is back on the loop header (after a completed iteration or `continue`): a new
        line event natively, hence a scheduling point for modelled threads."""
        if self.on_stmt is not None:
            self.on_stmt(s, f)

    def s_While(self, s, f):
        n = 0
        while self.truth(self.eval(s.test, f)):
            n += 1
            if n > self.LOOP_BOUND:
                raise Unsupported(f"while loop exceeded the unwinding bound {self.LOOP_BOUND}")
            try:
                self.exec_block(s.body, f)
            except _Break:
                return
            except _Continue:
                pass
            self._loop_header(s, f)
        self.exec_block(s.orelse, f)

    def s_For(self, s, f):
        it = self.eval(s.iter, f)
        items = self.iterate(it)
        for x in items:
            self.assign(s.target, x, f)
            try:
                self.exec_block(s.body, f)
            except _Break:
                return
            except _Continue:
                pass
            self._loop_header(s, f)
        self.exec_block(s.orelse, f)

    def s_Break(self, s, f):
        raise _Break()

    def s_Continue(self, s, f):
        raise _Continue()

    def s_Raise(self, s, f):
        if s.exc is None:
            ff = f
            while ff is not None and ff.exc is None:
                ff = ff.parent
            if ff is None:
                raise prog(RuntimeError("No active exception to reraise"))
            raise ff.exc
        e = self.eval(s.exc, f)
        if isinstance(e, type):
            e = self.call(e, [], {})
        if not isinstance(e, BaseException):
            raise prog(TypeError("exceptions must derive from BaseException"))
        if s.cause is not None:
            c = self.eval(s.cause, f)
            try:
                e.__cause__ = c
            except TypeError:
                pass
        raise prog(e)

    def s_Try(self, s, f):
        try:
            try:
                self.exec_block(s.body, f)
            except Signal:
                raise
            except BaseException as exc:
                if not is_prog(exc):
                    raise EngineBug(f"{type(exc).__name__}: {exc}") from exc
                for h in s.handlers:
                    if h.type is None:
                        match = isinstance(exc, Exception)
                    else:
                        t = self.eval(h.type, f)
                        match = isinstance(exc, t)
                    if match:
                        if h.name:
                            f.locals[h.name] = exc
                        old = f.exc
                        f.exc = exc
                        try:
                            self.exec_block(h.body, f)
                        finally:
                            f.exc = old
                            if h.name:
                                f.locals.pop(h.name, None)
                        break
                else:
                    raise
            else:
                self.exec_block(s.orelse, f)
        finally:
            if s.finalbody:
                self.exec_block(s.finalbody, f)

    def s_With(self, s, f):
        self._with(s.items, s.body, f)

    s_AsyncWith = s_With

    def _with(self, items, body, f):
        if not items:
            self.exec_block(body, f)
            return
        item = items[0]
        mgr = self.eval(item.context_expr, f)
        enter = self.getattr(mgr, "__enter__")
        exit_ = self.getattr(mgr, "__exit__")
        val = self.call(enter, [], {})
        if item.optional_vars is not None:
            self.assign(item.optional_vars, val, f)
        try:
            self._with(items[1:], body, f)
        except (_Return, _Break, _Continue):
            self.call(exit_, [None, None, None], {})
            raise
        except Signal:
            raise
        except BaseException as exc:
            if not is_prog(exc):
                raise EngineBug(f"{type(exc).__name__}: {exc}") from exc
            if not self.truth(self.call(exit_, [type(exc), exc, exc.__traceback__], {})):
                raise
        else:
            self.call(exit_, [None, None, None], {})

    def s_FunctionDef(self, s, f):
        fn = self.make_closure(s, f, s.name)
        for d in reversed(s.decorator_list):
            fn = self.call(self.eval(d, f), [fn], {})
        f.locals[s.name] = fn

    s_AsyncFunctionDef = s_FunctionDef

    def make_closure(self, node, f, name):
        a = node.args
        defaults = tuple(self.eval(d, f) for d in a.defaults)
        kwdefaults = {k.arg: self.eval(d, f) for k, d in zip(a.kwonlyargs, a.kw_defaults)
                      if d is not None}
        return Closure(self, node, f, defaults, kwdefaults, name)

    def s_Assert(self, s, f):
        if not self.truth(self.eval(s.test, f)):
            raise prog(AssertionError())

    def s_Global(self, s, f):
        raise Unsupported("global statement")

    def s_Nonlocal(self, s, f):
        f.locals.setdefault("__nonlocal__", set()).update(s.names)

    # -- expressions ----------------------------------------------------------------------------
    def eval(self, e, f):
        m = getattr(self, "e_" + type(e).__name__, None)
        if m is None:
            raise Unsupported(f"expression {type(e).__name__}")
        return m(e, f)

    def e_Constant(self, e, f):
        return e.value

    def e_Name(self, e, f):
        return f.lookup(e.id)

    def e_Tuple(self, e, f):
        return tuple(self._elts(e.elts, f))

    def e_List(self, e, f):
        return self._elts(e.elts, f)

    def e_Set(self, e, f):
        vals = self._elts(e.elts, f)
        if any(contains_sym(v) for v in vals):
            out = SymSet(self)
            for v in vals:
                out.add(v)
            return out
        return set(vals)

    def _elts(self, elts, f):
        out = []
        for x in elts:
            if isinstance(x, ast.Starred):
                out.extend(self.iterate(self.eval(x.value, f)))
            else:
                out.append(self.eval(x, f))
        return out

    def e_Dict(self, e, f):
        d = {}
        for k, v in zip(e.keys, e.values):
            if k is None:
                for kk, vv in list(self.eval(v, f).items()):
                    self.models.dict_store(self, d, kk, vv)
            else:
                self.models.dict_store(self, d, self.eval(k, f), self.eval(v, f))
        return d

    def e_Yield(self, e, f):
        if not self.yields:
            raise Unsupported("yield outside an eagerly evaluated generator function")
        self.yields[-1].append(self.eval(e.value, f) if e.value is not None else None)
        return None

    def e_YieldFrom(self, e, f):
        if not self.yields:
            raise Unsupported("yield from outside an eagerly evaluated generator function")
        self.yields[-1].extend(self.iterate(self.eval(e.value, f)))
        return None

    def e_Lambda(self, e, f):
        return self.make_closure(e, f, "<lambda>")

    def e_JoinedStr(self, e, f):
        parts = []
        for v in e.values:
            if isinstance(v, ast.Constant):
                parts.append(v.value)
                continue
            x = self.eval(v.value, f)
            spec = None
            if v.format_spec is not None:
                spec = self.eval(v.format_spec, f)
            parts.append(self.format_value(x, v.conversion, spec))
        if any(isinstance(x, Opaque) for x in parts):
            return Opaque()
        if all(isinstance(x, str) for x in parts):
            return "".join(parts)
        out = []
        for x in parts:
            out.extend(lift_str(x).cs)
        return SStr(out)

    def format_value(self, x, conversion, spec):
        if spec not in (None, ""):
            if contains_sym(x) or contains_sym(spec):
                return Opaque()
            return self.nat(lambda: format(x, spec))
        if conversion == 114:  # !r
            if contains_sym(x):
                return Opaque()
            return self.nat(lambda: repr(x))
        if isinstance(x, (str, SStr)):
            return x
        if isinstance(x, SInt):
            return strs.py_str_of_int(x)
        if isinstance(x, SBool):
            return Opaque()
        if isinstance(x, Opaque):
            return x
        if isinstance(x, enum.Enum) or not contains_sym(x, 3):
            return self.nat(lambda: format(x))
        return Opaque()

    def e_FormattedValue(self, e, f):
        return self.format_value(self.eval(e.value, f), e.conversion, None)

    def e_Attribute(self, e, f):
        obj = self.eval(e.value, f)
        return self.getattr(obj, e.attr)

    def getattr(self, obj, name, default=MISSING):
        if isinstance(obj, (SStr, SBytes)):
            return SMethod(obj, name)
        if isinstance(obj, str) and name in ("join", "format"):
            return SMethod(obj, name)
        if isinstance(obj, (SInt, SBool, SReal, SFloat)):
            raise Unsupported(f"attribute {name} of a symbolic number")
        if isinstance(obj, Opaque):
            raise Unsupported(f"attribute {name} of opaque text")
        if hasattr(obj, "__symex_getattr__"):
            return obj.__symex_getattr__(self, name)
        if not isinstance(obj, (type, types.ModuleType)):
            cls_attr = inspect.getattr_static(type(obj), name, None)
            if isinstance(cls_attr, property) and self.interpretable(cls_attr.fget):
                return self.call_body(cls_attr.fget, [obj], {})
        try:
            return getattr(obj, name)
        except AttributeError as exc:
            if default is not MISSING:
                return default
            raise prog(exc)

    def setattr(self, obj, name, v):
        if is_sym(obj):
            raise prog(AttributeError(f"cannot set attribute {name}"))
        cls_attr = inspect.getattr_static(type(obj), name, None)
        if isinstance(cls_attr, property):
            if cls_attr.fset is None:
                raise prog(AttributeError(f"property '{name}' has no setter"))
            if self.interpretable(cls_attr.fset):
                self.call_body(cls_attr.fset, [obj, v], {})
                return
        self.nat(lambda: setattr(obj, name, v))

    def e_Call(self, e, f):
        if isinstance(e.func, ast.Name) and e.func.id == "super" and not e.args:
            ff = f
            while ff is not None and "__class__" not in ff.cells:
                ff = ff.parent
            if ff is None:
                raise Unsupported("super() outside a method")
            cls = ff.cells["__class__"].cell_contents
            node = func_ast(ff.fn)
            first = node.args.args[0].arg
            return super(cls, ff.locals[first])
        fn = self.eval(e.func, f)
        args = []
        for a in e.args:
            if isinstance(a, ast.Starred):
                args.extend(self.iterate(self.eval(a.value, f)))
            else:
                args.append(self.eval(a, f))
        kwargs = {}
        for k in e.keywords:
            if k.arg is None:
                kwargs.update(self.eval(k.value, f))
            else:
                kwargs[k.arg] = self.eval(k.value, f)
        return self.call(fn, args, kwargs)

    def e_Await(self, e, f):
        v = self.eval(e.value, f)
        return self.await_(v)

    def await_(self, v):
        if isinstance(v, Coro):
            return v.run()
        if hasattr(v, "__symex_await__"):
            return v.__symex_await__(self)
        raise Unsupported(f"await on {type(v).__name__}")

    def _comp(self, gens, f, emit):
        sub = Frame(f.fn, {}, f.globals, None, f)

        def rec(i):
            if i == len(gens):
                emit(sub)
                return
            g = gens[i]
            for x in self.iterate(self.eval(g.iter, sub if i else f)):
                self.assign(g.target, x, sub)
                if all(self.truth(self.eval(c, sub)) for c in g.ifs):
                    rec(i + 1)
        rec(0)

    def e_ListComp(self, e, f):
        out = []
        self._comp(e.generators, f, lambda sub: out.append(self.eval(e.elt, sub)))
        return out

    def e_GeneratorExp(self, e, f):
        return iter(self.e_ListComp(e, f))

    def e_SetComp(self, e, f):
        out = self.e_ListComp(e, f)
        if any(contains_sym(v) for v in out):
            raise Unsupported("set comprehension with symbolic members")
        return set(out)

    def e_DictComp(self, e, f):
        out = {}

        def emit(sub):
            self.models.dict_store(self, out, self.eval(e.key, sub), self.eval(e.value, sub))
        self._comp(e.generators, f, emit)
        return out

    def e_IfExp(self, e, f):
        return self.eval(e.body, f) if self.truth(self.eval(e.test, f)) else self.eval(e.orelse, f)

    def e_BoolOp(self, e, f):
        v = None
        for sub in e.values:
            v = self.eval(sub, f)
            if sub is e.values[-1]:
                return v
            t = self.truth(v)
            if isinstance(e.op, ast.And) and not t:
                return v if not is_sym(v) else self._falsy(v)
            if isinstance(e.op, ast.Or) and t:
                return v
        return v

    @staticmethod
    def _falsy(v):
        if isinstance(v, SBool):
            return False
        if isinstance(v, SInt):
            return 0
        return v

    def e_UnaryOp(self, e, f):
        v = self.eval(e.operand, f)
        if isinstance(e.op, ast.Not):
            if isinstance(v, SBool):
                return mk_bool(z3.Not(v.e))
            return not self.truth(v)
        if isinstance(e.op, ast.USub):
            if isinstance(v, (SInt, SBool)):
                return mk_int(-zint(v))
            if isinstance(v, SReal):
                return SReal(-v.e)
            return self.nat(lambda: -v)
        if isinstance(e.op, ast.UAdd):
            if isinstance(v, (SInt, SReal)):
                return v
            return self.nat(lambda: +v)
        raise Unsupported(f"unary {type(e.op).__name__}")

    def e_BinOp(self, e, f):
        return self.binop(e.op, self.eval(e.left, f), self.eval(e.right, f))

    def binop(self, op, a, b, inplace=False):
        r = self.models.binop(self, op, a, b, inplace)
        if r is not MISSING:
            return r
        if contains_sym(a, 2) or contains_sym(b, 2):
            raise Unsupported(f"operator {type(op).__name__} on "
                              f"{sym_type(a).__name__}, {sym_type(b).__name__}")
        import operator as _o
        table = {ast.Add: _o.add, ast.Sub: _o.sub, ast.Mult: _o.mul, ast.Div: _o.truediv,
                 ast.FloorDiv: _o.floordiv, ast.Mod: _o.mod, ast.Pow: _o.pow,
                 ast.BitAnd: _o.and_, ast.BitOr: _o.or_, ast.BitXor: _o.xor,
                 ast.LShift: _o.lshift, ast.RShift: _o.rshift}
        itable = {ast.Add: _o.iadd, ast.Sub: _o.isub, ast.Mult: _o.imul}
        fn = (itable.get(type(op)) if inplace else None) or table.get(type(op))
        if fn is None:
            raise Unsupported(f"operator {type(op).__name__}")
        return self.nat(lambda: fn(a, b))

    def e_Compare(self, e, f):
        left = self.eval(e.left, f)
        n = len(e.ops)
        for i, (op, rn) in enumerate(zip(e.ops, e.comparators)):
            right = self.eval(rn, f)
            r = self.compare(op, left, right)
            if i == n - 1:
                return r
            if not self.truth(r):
                return False
            left = right

    def compare(self, op, a, b):
        if isinstance(op, ast.Is):
            return a is b
        if isinstance(op, ast.IsNot):
            return a is not b
        if isinstance(op, (ast.Eq, ast.NotEq)):
            r = self.models.sym_eq(self, a, b)
            if isinstance(op, ast.NotEq):
                r = (not r) if isinstance(r, bool) else mk_bool(z3.Not(zbool(r)))
            return r
        if isinstance(op, (ast.Lt, ast.LtE, ast.Gt, ast.GtE)):
            return self.models.sym_order(self, type(op), a, b)
        if isinstance(op, (ast.In, ast.NotIn)):
            r = self.models.sym_in(self, a, b)
            if isinstance(op, ast.NotIn):
                r = (not r) if isinstance(r, bool) else mk_bool(z3.Not(zbool(r)))
            return r
        raise Unsupported(f"comparison {type(op).__name__}")

    def e_Subscript(self, e, f):
        obj = self.eval(e.value, f)
        if isinstance(e.slice, ast.Slice):
            lo = self.eval(e.slice.lower, f) if e.slice.lower else None
            hi = self.eval(e.slice.upper, f) if e.slice.upper else None
            if e.slice.step is not None:
                st = self.eval(e.slice.step, f)
                if st == -1 and lo is None and hi is None and isinstance(obj, (SStr, SBytes)):
                    if isinstance(obj, SStr):
                        return SStr(tuple(reversed(strs.expand(self.p, obj).cs)))
                    return SBytes(list(reversed(self.models.bytes_atoms(self, obj))))
                if is_sym(obj) or is_sym(lo) or is_sym(hi) or is_sym(st):
                    raise Unsupported("extended slice on symbolic data")
                return self.nat(lambda: obj[lo:hi:st])
            return self.models.getslice(self, obj, lo, hi)
        k = self.eval(e.slice, f)
        return self.models.getitem(self, obj, k)

    def e_Starred(self, e, f):
        raise Unsupported("starred expression outside a call / display")

    def e_NamedExpr(self, e, f):
        v = self.eval(e.value, f)
        f.locals[e.target.id] = v
        return v


def _lower(v):
    """Fully concrete results of the string models are ordinary Python values again."""
    if isinstance(v, SStr):
        return lower_str(v)
    if isinstance(v, list):
        return [_lower(x) for x in v]
    return v


def _as_load(t):
    import copy
    t = copy.copy(t)
    t.ctx = ast.Load()
    return t


def describe(fn):
    return getattr(fn, "__qualname__", None) or getattr(fn, "__name__", None) or repr(fn)


INTERP_EXTRA = {
    ("voluptuous.validators", "In.__call__"),
    ("voluptuous.validators", "Range.__call__"),
    ("voluptuous.validators", "Coerce.__call__"),
    ("serial.threaded", "Packetizer.__init__"),
    ("serial.threaded", "Packetizer.connection_made"),
    ("serial.threaded", "Packetizer.connection_lost"),
    ("serial.threaded", "Packetizer.data_received"),
    ("serial.threaded", "Protocol.connection_made"),
    ("serial.threaded", "Protocol.connection_lost"),
    ("serial.threaded", "LineReader.handle_packet"),
    ("serial.threaded", "LineReader.write_line"),
}


def default_interp_pred(fn):
    mod = getattr(fn, "__module__", "") or ""
    if mod == "mysensors" or mod.startswith("mysensors."):
        return True
    if mod.startswith("verifspec"):
        return True
    return (mod, fn.__qualname__) in INTERP_EXTRA
