"""String / number models over SStr (concrete atom count, symbolic code points, lazy Render atoms).

Every model is fork-free unless the *shape* of the result changes (length of a string, number of
list items, accept/reject of a parser).  All arithmetic is linear integer arithmetic.
"""
from fractions import Fraction

import z3

from .core import (
    DIGIT_BLOCKS, ISDIGIT_RANGES, WS_RANGES, Cut, Render, SBool, SFloat, SInt, SStr, Unsupported,
    _ranges, digit_val, in_ranges, lift_str, mk_bool, mk_int, prog, zint,
)

MINUS, PLUS, UNDERSCORE, DOT = ord("-"), ord("+"), ord("_"), ord(".")
MAXDIGITS = 6  # explicit-digit expansion bound for Render atoms (|n| < 10**MAXDIGITS)


def _numws():
    def ok(c):
        try:
            int(c + "1")
            return c not in "+-" and not c.isdigit()
        except ValueError:
            return False
    return _ranges(ok)


NUMWS_RANGES = _numws()  # what int()/float() skip: str.isspace minus \x1c..\x1f on CPython 3.12


def _lit(c):
    return c if not isinstance(c, int) else z3.IntVal(c)


def _is_plain_sep(c):
    """Concrete char that cannot occur inside a decimal rendering."""
    return isinstance(c, int) and c != MINUS and not (48 <= c <= 57)


def aligned(a, b):
    """Same atom shape, and every Render atom is delimited by string ends or concrete
    non-digit/non-minus chars on both sides in both strings (so atom-wise comparison is exact)."""
    if len(a.cs) != len(b.cs):
        return False
    for s in (a, b):
        for i, c in enumerate(s.cs):
            if isinstance(c, Render):
                for j in (i - 1, i + 1):
                    if 0 <= j < len(s.cs) and not _is_plain_sep(s.cs[j]):
                        return False
    for x, y in zip(a.cs, b.cs):
        if isinstance(x, Render) != isinstance(y, Render):
            return False
    return True


def expand(p, s, maxdigits=None):
    """Replace Render atoms by explicit digit atoms (forks on sign and digit count)."""
    if not s.has_render():
        return s
    out = []
    for c in s.cs:
        if isinstance(c, Render):
            out.extend(explicit_digits(p, c.n, maxdigits or MAXDIGITS))
        else:
            out.append(c)
    return SStr(out)


def explicit_digits(p, n, maxdigits):
    key = ("digits", n.get_id() if hasattr(n, "get_id") else n)
    if key in p.memo:
        return p.memo[key]
    if isinstance(n, int):
        r = [ord(ch) for ch in str(n)]
        p.memo[key] = r
        return r
    neg = p.branch(n < 0)
    mag = -n if neg else n
    nd = None
    for k in range(1, maxdigits + 1):
        if p.branch(mag < 10 ** k):
            nd = k
            break
    if nd is None:
        raise Cut(f"explicit digits of an integer with more than {maxdigits} digits")
    ds = [p.fresh_int("digit", 0, 9).e for _ in range(nd)]
    val = z3.IntVal(0)
    for d in ds:
        val = 10 * val + d
    p.add(val == mag)
    if nd > 1:
        p.add(ds[0] >= 1)
    cs = [d + 48 for d in ds]
    if neg:
        cs.insert(0, MINUS)
    p.memo[key] = cs
    return cs


def _and(conj):
    if not conj:
        return True
    r = mk_bool(z3.And(conj))
    return r if isinstance(r, bool) else r.e


def s_eq(p, a, b):
    """a == b for str-like values: bool or z3 Bool."""
    a, b = lift_str(a), lift_str(b)
    if a.has_render() or b.has_render():
        for x, y in ((a, b), (b, a)):
            if len(x.cs) == 1 and isinstance(x.cs[0], Render) and y.is_concrete():
                # str(n) == "text": only the canonical rendering of one integer can match
                text = "".join(chr(c) for c in y.cs)
                import re as _re
                if _re.fullmatch(r"-?(0|[1-9][0-9]*)", text) is None or text == "-0":
                    return False
                return _and([_lit(x.cs[0].n) == int(text)])
        if aligned(a, b):
            conj = []
            for x, y in zip(a.cs, b.cs):
                if isinstance(x, Render):
                    conj.append(_lit(x.n) == _lit(y.n))
                elif isinstance(x, int) and isinstance(y, int):
                    if x != y:
                        return False
                else:
                    conj.append(_lit(x) == _lit(y))
            return _and(conj)
        a, b = expand(p, a), expand(p, b)
    if len(a.cs) != len(b.cs):
        return False
    conj = []
    for x, y in zip(a.cs, b.cs):
        if isinstance(x, int) and isinstance(y, int):
            if x != y:
                return False
        else:
            conj.append(_lit(x) == _lit(y))
    return _and(conj)


def _strip_pred(chars):
    if chars is None:
        return lambda c: in_ranges(c, WS_RANGES)
    chars = lift_str(chars)
    if not chars.is_concrete():
        raise Unsupported("strip with symbolic character set")
    cps = sorted(set(chars.cs))
    return lambda c: (c in cps) if isinstance(c, int) else z3.Or([c == k for k in cps])


def s_rstrip(p, s, chars=None):
    pred = _strip_pred(chars)
    cs = list(s.cs)
    while cs:
        last = cs[-1]
        if isinstance(last, Render):
            if chars is None:
                break  # ends with a digit
            cs = list(expand(p, SStr(cs)).cs)
            continue
        if not p.branch(pred(last)):
            break
        cs.pop()
    return SStr(cs)


def s_lstrip(p, s, chars=None):
    pred = _strip_pred(chars)
    cs = list(s.cs)
    while cs:
        first = cs[0]
        if isinstance(first, Render):
            if chars is None:
                break
            cs = list(expand(p, SStr(cs)).cs)
            continue
        if not p.branch(pred(first)):
            break
        cs.pop(0)
    return SStr(cs)


def s_strip(p, s, chars=None):
    return s_rstrip(p, s_lstrip(p, s, chars), chars)


def s_split(p, s, sep, maxsplit=-1):
    sep = lift_str(sep)
    if not sep.is_concrete() or len(sep.cs) != 1:
        raise Unsupported("split with a separator that is not one concrete character")
    d = sep.cs[0]
    if not _is_plain_sep(d) and s.has_render():
        s = expand(p, s)
    parts, cur = [], []
    for c in s.cs:
        if isinstance(c, Render):
            cur.append(c)
            continue
        if maxsplit >= 0 and len(parts) >= maxsplit:
            cur.append(c)
            continue
        hit = (c == d) if isinstance(c, int) else p.branch(c == d)
        if hit:
            parts.append(SStr(cur))
            cur = []
        else:
            cur.append(c)
    parts.append(SStr(cur))
    return parts


def s_join(p, sep, items):
    sep = lift_str(sep)
    out = []
    for i, it in enumerate(items):
        if i:
            out.extend(sep.cs)
        if not isinstance(it, (str, SStr)):
            raise prog(TypeError(f"sequence item {i}: expected str instance, {type(it).__name__} found"))
        out.extend(lift_str(it).cs)
    return SStr(out)


def s_concat(a, b):
    return SStr(lift_str(a).cs + lift_str(b).cs)


def s_len(p, s):
    if s.has_render():
        s = expand(p, s)
    return len(s.cs), s


def s_getitem(p, s, i):
    if s.has_render():
        s = expand(p, s)
    if isinstance(i, SInt):
        n = len(s.cs)
        for k in range(-n, n):
            if p.branch(i.e == k):
                return SStr([s.cs[k]])
        raise prog(IndexError("string index out of range"))
    if not -len(s.cs) <= i < len(s.cs):
        raise prog(IndexError("string index out of range"))
    return SStr([s.cs[i]])


def s_slice(p, s, lo, hi):
    """s[lo:hi] (step 1).  A symbolic bound forks over the positions it can denote."""
    cs = s.cs
    # negative-from-the-end slicing over single-char atoms needs no expansion
    need_expand = s.has_render()
    if need_expand:
        def tail_ok(k):  # the last -k atoms are single chars
            return k is None or (isinstance(k, int) and k < 0 and
                                 not any(isinstance(c, Render) for c in cs[k:]))
        if (lo is None or tail_ok(lo)) and tail_ok(hi) and not (lo is None and hi is None):
            need_expand = False
        if lo is None and hi is None:
            return s
    if need_expand:
        s = expand(p, s)
        cs = s.cs
    n = len(cs)

    def fix(b):
        if not isinstance(b, SInt):
            return b
        for k in range(-n - 1, n + 2):
            if p.branch(b.e == k):
                return k
        # beyond the ends all values behave alike
        return (n + 1) if p.branch(b.e > 0) else (-n - 1)
    return SStr(cs[fix(lo):fix(hi)])


def s_find(p, s, sub, start=0):
    """First index of sub in s, or -1: fork-free ite chain."""
    s, sub = lift_str(s), lift_str(sub)
    if s.has_render() or sub.has_render():
        s, sub = expand(p, s), expand(p, sub)
    n, m = len(s.cs), len(sub.cs)
    if m == 0:
        return start if start <= n else -1
    res = z3.IntVal(-1)
    concrete = True
    for i in range(n - m, start - 1, -1):
        conj = []
        dead = False
        for x, y in zip(s.cs[i:i + m], sub.cs):
            if isinstance(x, int) and isinstance(y, int):
                if x != y:
                    dead = True
                    break
            else:
                conj.append(_lit(x) == _lit(y))
        if dead:
            continue
        if not conj:
            res = z3.IntVal(i)
        else:
            concrete = False
            res = z3.If(z3.And(conj), i, res)
    return mk_int(res)


def s_contains(p, s, sub):
    s, sub = lift_str(s), lift_str(sub)
    if len(sub.cs) == 1 and _is_plain_sep(sub.cs[0]):
        # a char that cannot occur inside a decimal rendering: look at the other atoms only
        d = sub.cs[0]
        disj = []
        for c in s.cs:
            if isinstance(c, Render):
                continue
            if isinstance(c, int):
                if c == d:
                    return True
            else:
                disj.append(c == d)
        return mk_bool(z3.Or(disj)) if disj else False
    r = s_find(p, s, sub)
    if isinstance(r, int):
        return r >= 0
    return mk_bool(r.e >= 0)


def s_startswith(p, s, pre):
    s, pre = lift_str(s), lift_str(pre)
    if len(pre.cs) == 0:
        return True
    if s.has_render() or pre.has_render():
        # common case: concrete non-digit prefix char against a Render head
        s, pre = expand(p, s), expand(p, pre)
    if len(pre.cs) > len(s.cs):
        return False
    return s_eq(p, SStr(s.cs[:len(pre.cs)]), pre)


def s_endswith(p, s, suf):
    s, suf = lift_str(s), lift_str(suf)
    if len(suf.cs) == 0:
        return True
    if s.has_render() or suf.has_render():
        s, suf = expand(p, s), expand(p, suf)
    if len(suf.cs) > len(s.cs):
        return False
    return s_eq(p, SStr(s.cs[len(s.cs) - len(suf.cs):]), suf)


def s_replace(p, s, old, new, count=-1):
    """str.replace: left-to-right, non-overlapping; forks on each possible match position."""
    s, old, new = expand(p, lift_str(s)), expand(p, lift_str(old)), lift_str(new)
    m = len(old.cs)
    if m == 0:
        raise Unsupported("str.replace with an empty pattern")
    out, i, done = [], 0, 0
    while i < len(s.cs):
        if i + m <= len(s.cs) and (count < 0 or done < count):
            eq = s_eq(p, SStr(s.cs[i:i + m]), old)
            if p.branch(eq) if not isinstance(eq, bool) else eq:
                out.extend(new.cs)
                i += m
                done += 1
                continue
        out.append(s.cs[i])
        i += 1
    return SStr(out)


def s_isdigit(p, s):
    if len(s.cs) == 1 and isinstance(s.cs[0], Render):
        return mk_bool(_lit(s.cs[0].n) >= 0)  # str(n) is all ASCII digits iff n >= 0
    if s.has_render():
        s = expand(p, s)
    if not s.cs:
        return False
    conj = [in_ranges(c, ISDIGIT_RANGES) for c in s.cs]
    if all(isinstance(c, bool) for c in conj):
        return all(conj)
    return mk_bool(z3.And([c if not isinstance(c, bool) else z3.BoolVal(c) for c in conj]))


# ------------------------------------------------------------------------------------------------
def py_str_of_int(n):
    """str(int): lazy Render atom."""
    if isinstance(n, int):
        return str(int(n))
    return SStr([Render(zint(n))])


def py_int_of_str(p, s):
    """int(str), base 10: CPython grammar  ws* [+-]? digit (_? digit)* ws*  with any Unicode Nd
    digit; one symbolic DFA run, a single fork on accept/reject, value as a linear fold."""
    s = lift_str(s)
    if len(s.cs) == 1 and isinstance(s.cs[0], Render):
        return mk_int(s.cs[0].n)
    s = expand(p, s)
    st = z3.IntVal(0)
    neg = z3.BoolVal(False)
    acc = z3.IntVal(0)
    for c in s.cs:
        c = _lit(c)
        W = in_ranges(c, NUMWS_RANGES)
        D = in_ranges(c, DIGIT_BLOCKS)
        S = z3.Or(c == PLUS, c == MINUS)
        U = c == UNDERSCORE
        nxt = z3.If(st == 0, z3.If(W, 0, z3.If(S, 1, z3.If(D, 2, 5))),
              z3.If(st == 1, z3.If(D, 2, 5),
              z3.If(st == 2, z3.If(D, 2, z3.If(U, 3, z3.If(W, 4, 5))),
              z3.If(st == 3, z3.If(D, 2, 5),
              z3.If(st == 4, z3.If(W, 4, 5), 5)))))
        neg = z3.If(z3.And(st == 0, c == MINUS), z3.BoolVal(True), neg)
        acc = z3.If(z3.And(D, nxt == 2), 10 * acc + digit_val(c), acc)
        st = nxt
    ok = z3.Or(st == 2, st == 4)
    if not p.branch(ok):
        raise prog(ValueError("invalid literal for int() with base 10"))
    return mk_int(z3.If(neg, -acc, acc))


def py_int_of_hex(p, s):
    """int(str, 16): CPython grammar  ws* [+-]? (0[xX] _?)? hexdigit (_? hexdigit)* ws*  where any
    Unicode Nd digit counts as its decimal value (CPython maps them to ASCII first, so a non-ASCII
    zero can also start the prefix); one symbolic DFA run, a single fork on accept/reject."""
    s = expand(p, lift_str(s))
    st = z3.IntVal(0)
    neg = z3.BoolVal(False)
    acc = z3.IntVal(0)
    # states: 0 leading ws, 1 sign, 2 first digit was a zero (maybe a prefix), 3 after 0x,
    # 4 after 0x_, 5 digits, 6 '_' after a digit, 7 trailing ws, 9 dead
    for c in s.cs:
        c = _lit(c)
        W = in_ranges(c, NUMWS_RANGES)
        D = in_ranges(c, DIGIT_BLOCKS)
        L = z3.Or(z3.And(c >= 65, c <= 70), z3.And(c >= 97, c <= 102))
        H = z3.Or(D, L)
        Z = z3.And(D, digit_val(c) == 0)
        X = z3.Or(c == 120, c == 88)
        S = z3.Or(c == PLUS, c == MINUS)
        U = c == UNDERSCORE
        nxt = z3.If(st == 0, z3.If(W, 0, z3.If(S, 1, z3.If(Z, 2, z3.If(H, 5, 9)))),
              z3.If(st == 1, z3.If(Z, 2, z3.If(H, 5, 9)),
              z3.If(st == 2, z3.If(X, 3, z3.If(H, 5, z3.If(U, 6, z3.If(W, 7, 9)))),
              z3.If(st == 3, z3.If(H, 5, z3.If(U, 4, 9)),
              z3.If(st == 4, z3.If(H, 5, 9),
              z3.If(st == 5, z3.If(H, 5, z3.If(U, 6, z3.If(W, 7, 9))),
              z3.If(st == 6, z3.If(H, 5, 9),
              z3.If(st == 7, z3.If(W, 7, 9), 9))))))))
        neg = z3.If(z3.And(st == 0, c == MINUS), z3.BoolVal(True), neg)
        val = z3.If(D, digit_val(c), z3.If(c <= 70, c - 55, c - 87))
        acc = z3.If(z3.And(H, nxt == 5), 16 * acc + val, acc)
        st = nxt
    ok = z3.Or(st == 2, st == 5, st == 7)
    if not p.branch(ok):
        raise prog(ValueError("invalid literal for int() with base 16"))
    return mk_int(z3.If(neg, -acc, acc))


def s_case(p, s, name):
    """str.lower / str.upper: exact for ASCII; other symbolic characters are outside the model."""
    s = expand(p, s)
    out = []
    for c in s.cs:
        if isinstance(c, int):
            t = getattr(chr(c), name)()
            out.extend(ord(x) for x in t)
            continue
        if not p.branch(c < 128):
            raise Cut(f"str.{name} of a non-ASCII symbolic character")
        if name == "lower":
            out.append(z3.If(z3.And(c >= 65, c <= 90), c + 32, c))
        else:
            out.append(z3.If(z3.And(c >= 97, c <= 122), c - 32, c))
    return SStr(out)


# float ----------------------------------------------------------------------------------------
_F_DEAD = 99
_WORDS = {"inf": 20, "nan": 40}


def _ci(c, ch):
    return z3.Or(c == ord(ch), c == ord(ch.upper()))


def py_float_of_str(p, s):
    """float(str): CPython grammar (sign, digits with single underscores between digits, optional
    fraction and exponent, inf/infinity/nan in any case, surrounding whitespace, any Unicode Nd
    digit).  One fork on accept/reject.  The value is kept as ±M·10^K with M an integer."""
    s = expand(p, lift_str(s))
    n = len(s.cs)
    st = z3.IntVal(0)
    neg = z3.BoolVal(False)
    eneg = z3.BoolVal(False)
    M = z3.IntVal(0)
    F = z3.IntVal(0)  # number of fraction digits
    E = z3.IntVal(0)
    # states: 0 lead-ws, 1 sign, 2 int digits*, 3 '_' in int, 4 '.' after digits*, 5 '.' without
    # digits, 6 frac digits*, 7 '_' in frac, 8 'e', 9 exp sign, 10 exp digits*, 11 '_' in exp,
    # 12 trail-ws*, 20.. i n f* i n i t y*, 40.. n a n*     (* accepting)
    inf_word = "infinity"
    for c in s.cs:
        c = _lit(c)
        W = in_ranges(c, NUMWS_RANGES)
        D = in_ranges(c, DIGIT_BLOCKS)
        S = z3.Or(c == PLUS, c == MINUS)
        U = c == UNDERSCORE
        P = c == DOT
        X = _ci(c, "e")
        I1 = _ci(c, "i")
        N1 = _ci(c, "n")
        dead = z3.IntVal(_F_DEAD)
        start = z3.If(S, 1, z3.If(D, 2, z3.If(P, 5, z3.If(I1, 21, z3.If(N1, 41, dead)))))
        nxt = dead
        table = {
            0: z3.If(W, 0, start),
            1: z3.If(D, 2, z3.If(P, 5, z3.If(I1, 21, z3.If(N1, 41, dead)))),
            2: z3.If(D, 2, z3.If(U, 3, z3.If(P, 4, z3.If(X, 8, z3.If(W, 12, dead))))),
            3: z3.If(D, 2, dead),
            4: z3.If(D, 6, z3.If(X, 8, z3.If(W, 12, dead))),
            5: z3.If(D, 6, dead),
            6: z3.If(D, 6, z3.If(U, 7, z3.If(X, 8, z3.If(W, 12, dead)))),
            7: z3.If(D, 6, dead),
            8: z3.If(S, 9, z3.If(D, 10, dead)),
            9: z3.If(D, 10, dead),
            10: z3.If(D, 10, z3.If(U, 11, z3.If(W, 12, dead))),
            11: z3.If(D, 10, dead),
            12: z3.If(W, 12, dead),
        }
        for k in range(1, 8):  # 21 = after 'i' ... 28 = after 'y'
            nx = _ci(c, inf_word[k])
            cur = 20 + k
            t = z3.If(nx, cur + 1, dead)
            if cur in (23,):  # "inf" accepting: may end with ws
                t = z3.If(nx, cur + 1, z3.If(W, 12, dead))
            table[cur] = t
        table[28] = z3.If(W, 12, dead)
        table[41] = z3.If(_ci(c, "a"), 42, dead)
        table[42] = z3.If(_ci(c, "n"), 43, dead)
        table[43] = z3.If(W, 12, dead)
        for k, v in table.items():
            nxt = z3.If(st == k, v, nxt)
        neg = z3.If(z3.And(st == 0, c == MINUS), z3.BoolVal(True), neg)
        eneg = z3.If(z3.And(st == 8, c == MINUS), z3.BoolVal(True), eneg)
        dv = digit_val(c)
        M = z3.If(z3.And(D, z3.Or(nxt == 2, nxt == 6)), 10 * M + dv, M)
        F = z3.If(z3.And(D, nxt == 6), F + 1, F)
        E = z3.If(z3.And(D, nxt == 10), 10 * E + dv, E)
        st = nxt
    # the word states are numbered 21.. after 'i'; 23 = "inf", 28 = "infinity", 43 = "nan"
    accepting = z3.Or([st == k for k in (2, 4, 6, 10, 12, 23, 28, 43)])
    # state 12 (trailing ws) may have been entered from a word: remember which kind
    # -> recompute flags by a second light pass: a string is inf/nan iff it contains i/n letters
    has_i = z3.Or([_ci(_lit(c), "i") for c in s.cs]) if n else z3.BoolVal(False)
    has_a = z3.Or([_ci(_lit(c), "a") for c in s.cs]) if n else z3.BoolVal(False)
    if not p.branch(accepting):
        raise prog(ValueError("could not convert string to float"))
    is_inf = z3.simplify(has_i)
    is_nan = z3.simplify(z3.And(has_a, z3.Not(has_i)))
    K = z3.If(eneg, -E, E) - F
    return SFloat(neg, M, K, is_nan, is_inf, n)


def _pow10_cmp_table(maxdigits):
    return maxdigits


# thresholds for underflow to zero: M*10^K <= 2^-1075  <=>  M <= 10^-K / 2^1075
def _underflow(m, k, maxdigits):
    """M·10^K rounds to ±0.0 (M > 0 assumed separately)."""
    conds = []
    for j in range(0, maxdigits + 2):
        kk = -324 - j
        t = Fraction(10 ** (-kk), 2 ** 1075)
        conds.append(z3.And(k == kk, m <= int(t)))  # floor; equality M·10^K == 2^-1075 impossible
    conds.append(k < -324 - maxdigits - 1)
    return z3.Or(conds)


def _overflow(m, k, maxdigits):
    """M·10^K rounds to inf: M·10^K >= 2^1024 - 2^970 (round-half-even boundary)."""
    bound = 2 ** 1024 - 2 ** 970
    conds = []
    for kk in range(308 - maxdigits - 1, 310):
        # M*10^kk >= bound  <=>  M >= ceil(bound / 10^kk)
        q = -(-bound // (10 ** kk))
        conds.append(z3.And(k == kk, m >= q))
    conds.append(z3.And(k >= 310, m >= 1))
    return z3.Or(conds)


def _mag_cmp(m, k, bound, op, maxdigits):
    """Exact comparison  M·10^K  op  bound  for a non-negative rational bound, as a case split
    on K inside the window where it matters (linear in M).  op in '<', '<=', '>', '>='."""
    b = Fraction(bound)
    conds = []
    lo_k, hi_k = -maxdigits - 2, maxdigits + 40
    # inside the window: compare M with b / 10^K exactly
    for kk in range(lo_k, hi_k + 1):
        t = b / Fraction(10) ** kk
        fl = t.numerator // t.denominator
        exact = (t.denominator == 1)
        if op == "<":
            c = (m < fl) if exact else (m <= fl)
        elif op == "<=":
            c = m <= fl
        elif op == ">":
            c = m > fl
        else:
            c = (m >= fl) if exact else (m > fl)
        conds.append(z3.And(k == kk, c))
    # below the window: M·10^K < 10^(maxdigits+lo_k-1)... tiny: compare as 0 unless M == 0 matters
    tiny_val_lt = b > 0  # value is in (0, small) or 0
    if op in ("<", "<="):
        below = z3.BoolVal(True) if b > 0 else (m == 0 if op == "<=" else z3.BoolVal(False))
    else:
        below = z3.BoolVal(False) if b > 0 else (m > 0 if op == ">" else z3.BoolVal(True))
    conds.append(z3.And(k < lo_k, below))
    # above the window: huge unless M == 0
    if op in ("<", "<="):
        above = (m == 0) if (b > 0 or op == "<=") else z3.BoolVal(False)
    else:
        above = (m > 0) if (b > 0 or op == ">") else z3.BoolVal(True)
    conds.append(z3.And(k > hi_k, above))
    return z3.Or(conds)


def float_cmp(p, f, op, bound):
    """float_value op bound  for a concrete finite bound, IEEE semantics (nan compares false,
    underflow to ±0.0, overflow to ±inf).  Returns z3 Bool."""
    bound = Fraction(bound)
    if bound != 0 and abs(bound) < 1:
        raise Unsupported("float comparison with a bound in (0, 1)")
    md = f.maxdigits
    zero = z3.And(z3.Not(f.inf), z3.Or(f.m == 0, _underflow(f.m, f.k, md)))  # finite, rounds to ±0
    huge = z3.Or(f.inf, z3.And(f.m > 0, _overflow(f.m, f.k, md)))
    # within the string-length bound the decimal value is far from any representable bound's
    # rounding interval (see DESIGN §3.4), so exact rational comparison decides non-extreme cases
    if bound >= 0:
        pos_mag = _mag_cmp(f.m, f.k, bound, op, md)
        if op in ("<", "<="):
            # negative values: < any bound >= 0 unless they are -0.0 compared with 0
            neg_case = z3.If(zero, z3.BoolVal(bound > 0 or op == "<="), z3.BoolVal(True))
            pos_case = z3.If(huge, z3.BoolVal(False),
                             z3.If(zero, z3.BoolVal(bound > 0 or op == "<="), pos_mag))
        else:
            neg_case = z3.If(zero, z3.BoolVal(bound == 0 and op == ">="), z3.BoolVal(False))
            pos_case = z3.If(huge, z3.BoolVal(True),
                             z3.If(zero, z3.BoolVal(bound == 0 and op == ">="), pos_mag))
    else:
        flip = {"<": ">", "<=": ">=", ">": "<", ">=": "<="}[op]
        neg_mag = _mag_cmp(f.m, f.k, -bound, flip, md)
        if op in ("<", "<="):
            neg_case = z3.If(huge, z3.BoolVal(True), z3.If(zero, z3.BoolVal(False), neg_mag))
            pos_case = z3.BoolVal(False)
        else:
            neg_case = z3.If(huge, z3.BoolVal(False), z3.If(zero, z3.BoolVal(True), neg_mag))
            pos_case = z3.BoolVal(True)
    return z3.simplify(z3.And(z3.Not(f.nan), z3.If(f.neg, neg_case, pos_case)))
