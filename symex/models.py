"""Library boundary: models of built-ins, containers with symbolic keys, voluptuous combinators,
enum construction, struct / binascii, AwesomeVersion.  Every model here is part of the trusted
base and is listed in the evidence (MODELS)."""
import ast
import binascii
import functools
import itertools
import collections
import enum
import struct
import types

import voluptuous as vol
import z3
from voluptuous import validators as vv
from voluptuous import schema_builder as vsb

from . import strs
from .core import (
    SYMS, Cut, Opaque, Render, SBool, SBytes, SFloat, SInt, SReal, SStr, Unsupported, is_sym,
    lift_str, lower_bytes, lower_str, mk_bool, mk_int, prog, zbool, zint, zreal,
)

MISSING = None  # set in install() to interp.MISSING (avoid an import cycle)
contains_sym = None
sym_type = None

MODELS = [
    "int(str) DFA", "float(str) DFA + decimal-exponent comparison", "str(int) lazy Render",
    "len/bool/max/min/all/any/next/isinstance/getattr/setattr/hasattr",
    "str.rstrip/strip/split/join/find/startswith/endswith/isdigit/encode, slicing",
    "dict get/pop/in/update/setdefault/[] with solver-decided key equality",
    "IntEnum(value) fork over canonical members", "voluptuous Schema/Object/All/Any/dict walker",
    "struct.pack/unpack '<nH'", "binascii.hexlify/unhexlify",
    "AwesomeVersion comparison on symbolic text = uninterpreted outcome",
]


def install(interp):
    global MISSING, contains_sym, sym_type
    from . import interp as I
    MISSING = I.MISSING
    contains_sym = I.contains_sym
    sym_type = I.sym_type


# ------------------------------------------------------------------------------------------------
# equality / order / membership
def sym_eq(it, a, b):
    """a == b : bool or SBool."""
    if isinstance(a, SymVersion) or isinstance(b, SymVersion):
        return version_cmp(it, "==", a, b)
    if isinstance(a, (SStr,)) or isinstance(b, (SStr,)):
        if isinstance(a, (SStr, str)) and isinstance(b, (SStr, str)):
            return mk_bool(strs.s_eq(it.p, a, b))
        if isinstance(a, Opaque) or isinstance(b, Opaque):
            raise Unsupported("comparison with opaque text")
        return False
    if isinstance(a, SBytes) or isinstance(b, SBytes):
        if isinstance(a, (SBytes, bytes, bytearray)) and isinstance(b, (SBytes, bytes, bytearray)):
            return bytes_eq(it, a, b)
        return False
    if isinstance(a, (SInt, SBool)) or isinstance(b, (SInt, SBool)):
        if isinstance(a, (SInt, SBool, int)) and isinstance(b, (SInt, SBool, int)):
            return mk_bool(zint(a) == zint(b))
        if isinstance(a, (SReal, float)) or isinstance(b, (SReal, float)):
            return mk_bool(zreal(a) == zreal(b))
        return False
    if isinstance(a, SReal) or isinstance(b, SReal):
        if isinstance(a, (SReal, int, float)) and isinstance(b, (SReal, int, float)):
            return mk_bool(zreal(a) == zreal(b))
        return False
    if isinstance(a, SFloat) or isinstance(b, SFloat):
        raise Unsupported("== on a symbolic float")
    if isinstance(a, Opaque) or isinstance(b, Opaque):
        if a is b:
            return True
        raise Unsupported("comparison with opaque text")
    if isinstance(a, (tuple, list)) and type(a) is type(b) and (contains_sym(a, 2) or contains_sym(b, 2)):
        if len(a) != len(b):
            return False
        conj = []
        for x, y in zip(a, b):
            r = sym_eq(it, x, y)
            if r is False:
                return False
            if r is not True:
                conj.append(zbool(r))
        return mk_bool(z3.And(conj)) if conj else True
    if contains_sym(a, 1) or contains_sym(b, 1):
        if type(a) is not type(b):
            return False
        if isinstance(a, (dict, list, tuple, set)) and len(a) != len(b):
            return False  # containers have concrete structure: different sizes differ
        raise Unsupported(f"== on {type(a).__name__} holding symbolic data")
    return it.nat(lambda: a == b)


_OPS = {ast.Lt: "<", ast.LtE: "<=", ast.Gt: ">", ast.GtE: ">="}


def sym_order(it, op, a, b):
    o = _OPS[op]
    if isinstance(a, SymVersion) or isinstance(b, SymVersion):
        return version_cmp(it, o, a, b)
    if isinstance(a, SFloat) or isinstance(b, SFloat):
        if isinstance(a, SFloat) and isinstance(b, (int, float)) and not isinstance(b, bool):
            return mk_bool(strs.float_cmp(it.p, a, o, b))
        if isinstance(b, SFloat) and isinstance(a, (int, float)):
            flip = {"<": ">", "<=": ">=", ">": "<", ">=": "<="}[o]
            return mk_bool(strs.float_cmp(it.p, b, flip, a))
        raise Unsupported("ordering of a symbolic float with a non-constant")
    if isinstance(a, (SReal, float)) and isinstance(b, (SReal, SInt, int, float)) or \
            isinstance(b, (SReal, float)) and isinstance(a, (SReal, SInt, int, float)):
        if isinstance(a, SYMS) or isinstance(b, SYMS):
            x, y = zreal(a), zreal(b)
            return mk_bool({"<": x < y, "<=": x <= y, ">": x > y, ">=": x >= y}[o])
    if isinstance(a, (SInt, SBool)) or isinstance(b, (SInt, SBool)):
        if isinstance(a, (SInt, SBool, int)) and isinstance(b, (SInt, SBool, int)):
            x, y = zint(a), zint(b)
            return mk_bool({"<": x < y, "<=": x <= y, ">": x > y, ">=": x >= y}[o])
        raise prog(TypeError(f"'{o}' not supported between instances of "
                             f"'{sym_type(a).__name__}' and '{sym_type(b).__name__}'"))
    if isinstance(a, SStr) or isinstance(b, SStr):
        if isinstance(a, (SStr, str)) and isinstance(b, (SStr, str)):
            raise Unsupported("lexicographic ordering of symbolic strings")
        raise prog(TypeError(f"'{o}' not supported between instances of "
                             f"'{sym_type(a).__name__}' and '{sym_type(b).__name__}'"))
    if contains_sym(a, 1) or contains_sym(b, 1):
        raise Unsupported("ordering of containers holding symbolic data")
    import operator
    f = {"<": operator.lt, "<=": operator.le, ">": operator.gt, ">=": operator.ge}[o]
    return it.nat(lambda: f(a, b))


def sym_in(it, a, b):
    """a in b."""
    if isinstance(b, dict):
        return dict_find(it, b, a) is not MISSING
    if isinstance(b, (SStr, str)) and isinstance(a, (SStr, str)):
        if isinstance(b, str) and isinstance(a, str):
            return a in b
        return strs.s_contains(it.p, lift_str(b), lift_str(a))
    if isinstance(b, (SBytes, bytearray, bytes)) and (is_sym(a) or is_sym(b)):
        return bytes_contains(it, b, a)
    if hasattr(b, "__symex_contains__"):
        return b.__symex_contains__(it, a)
    if isinstance(b, (list, tuple, set, frozenset, collections.deque)) or \
            isinstance(b, (type({}.keys()), type({}.values()))):
        if not is_sym(a) and not contains_sym(a, 2) and not contains_sym(b, 2):
            return it.nat(lambda: a in b)
        disj = []
        for x in list(b):
            r = sym_eq(it, a, x)
            if r is True:
                return True
            if r is not False:
                disj.append(zbool(r))
        return mk_bool(z3.Or(disj)) if disj else False
    if isinstance(b, range) and isinstance(a, (SInt, SBool)):
        e = zint(a)
        if b.step > 0:
            conj = [e >= b.start, e < b.stop]
        else:
            conj = [e <= b.start, e > b.stop]
        if abs(b.step) != 1:
            conj.append((e - b.start) % abs(b.step) == 0)
        return mk_bool(z3.And(conj))
    if is_sym(a) or contains_sym(b, 1):
        raise Unsupported(f"'in' on {type(b).__name__}")
    return it.nat(lambda: a in b)


# ------------------------------------------------------------------------------------------------
# dicts with symbolic keys
def _keyeq(it, a, b):
    return it.truth(sym_eq(it, a, b))


def dict_find(it, d, k):
    """The key object of d equal to k (forking on solver-decided equality), or MISSING."""
    if not is_sym(k) and not contains_sym(k, 2):
        try:
            if dict.__contains__(d, k):
                return k
        except TypeError as exc:
            raise prog(exc)
        for kk in list(dict.keys(d)):
            if (is_sym(kk) or contains_sym(kk, 2)) and _keyeq(it, kk, k):
                return kk
        return MISSING
    for kk in list(dict.keys(d)):
        if _keyeq(it, kk, k):
            return kk
    return MISSING


def dict_lookup_grouped(it, d, k):
    """d.get(k, MISSING) for a symbolic key over concrete keys: forks once per *distinct value*
    (keys mapping to the identical object are decided with one disjunction)."""
    keys = list(dict.keys(d))
    if not (isinstance(k, SInt) and keys and all(isinstance(x, int) for x in keys)):
        kk = dict_find(it, d, k)
        return dict.__getitem__(d, kk) if kk is not MISSING else MISSING
    groups = {}
    for x in keys:
        v = dict.__getitem__(d, x)
        groups.setdefault(id(v), (v, []))[1].append(int(x))
    for v, ks in groups.values():
        cond = z3.Or([k.e == x for x in ks])
        if it.p.branch(cond):
            return v
    return MISSING


def dict_store(it, d, k, v):
    kk = dict_find(it, d, k)
    if kk is MISSING:
        kk = k
    try:
        if isinstance(d, collections.OrderedDict):
            collections.OrderedDict.__setitem__(d, kk, v)  # keeps its own ordering structure
        else:
            dict.__setitem__(d, kk, v)
    except TypeError as exc:
        raise prog(exc)


def getitem(it, obj, k):
    if isinstance(obj, dict):
        v = dict_lookup_grouped(it, obj, k)
        if v is MISSING:
            missing = getattr(type(obj), "__missing__", None)
            if isinstance(obj, collections.defaultdict):
                if obj.default_factory is None:
                    raise prog(KeyError(k))
                v = it.call(obj.default_factory, [], {})
                dict_store(it, obj, k, v)
                return v
            if missing is not None:
                return it.call(missing, [obj, k], {})
            raise prog(KeyError(k))
        return v
    if hasattr(obj, "__symex_getitem__"):
        return obj.__symex_getitem__(it, k)
    if isinstance(obj, SStr):
        return strs.s_getitem(it.p, obj, k)
    if isinstance(obj, str) and isinstance(k, SInt):
        return strs.s_getitem(it.p, lift_str(obj), k)
    if isinstance(obj, SBytes):
        bs = bytes_atoms(it, obj)
        k = pin_index(it, k, len(bs))
        if not -len(bs) <= k < len(bs):
            raise prog(IndexError("index out of range"))
        return mk_int(bs[k]) if not isinstance(bs[k], int) else bs[k]
    if isinstance(k, (SInt, SBool)):
        if isinstance(obj, (list, tuple, bytes, bytearray, collections.deque)):
            k = pin_index(it, k, len(obj))
        else:
            raise Unsupported(f"symbolic index into {type(obj).__name__}")
    elif is_sym(k):
        raise prog(TypeError("indices must be integers"))
    return it.nat(lambda: obj[k])


def pin_index(it, k, n):
    """Make a symbolic index concrete (feasible values enumerated through solver models)."""
    if not isinstance(k, (SInt, SBool)):
        return k
    return fix_bound(it, k, n)


def getslice(it, obj, lo, hi):
    if isinstance(obj, SStr) or (isinstance(obj, str) and (is_sym(lo) or is_sym(hi))):
        return strs.s_slice(it.p, lift_str(obj), lo, hi)
    if hasattr(obj, "__symex_getslice__"):
        return obj.__symex_getslice__(it, lo, hi)
    if isinstance(obj, SBytes):
        bs = bytes_atoms(it, obj)
        lo, hi = fix_bound(it, lo, len(bs)), fix_bound(it, hi, len(bs))
        return SBytes(bs[lo:hi])
    if is_sym(lo) or is_sym(hi):
        if isinstance(obj, (list, tuple, bytes, bytearray)):
            lo, hi = fix_bound(it, lo, len(obj)), fix_bound(it, hi, len(obj))
        else:
            raise Unsupported(f"symbolic slice of {type(obj).__name__}")
    return it.nat(lambda: obj[lo:hi])


def fix_bound(it, b, n):
    """Make a symbolic slice bound concrete: enumerate its feasible values through solver models
    (one fork per feasible value); everything beyond the ends is one class."""
    if not isinstance(b, (SInt, SBool)):
        return b
    e = zint(b)
    for _ in range(2 * n + 8):
        v = it.p.current_model().eval(e, model_completion=True).as_long()
        if v > n:
            if it.p.branch(e > n):
                return n + 1
            continue
        if v < -n - 1:
            if it.p.branch(e < -n - 1):
                return -n - 2
            continue
        if it.p.branch(e == v):
            return v
    raise Unsupported("slice bound enumeration did not converge")


# ------------------------------------------------------------------------------------------------
# bytes
def bytes_atoms(it, b):
    if isinstance(b, (bytes, bytearray)):
        return list(b)
    if b.src is not None:
        # UTF-8 encoding of a symbolic string: explicit only for ASCII atoms
        s = strs.expand(it.p, b.src)
        out = []
        for c in s.cs:
            if isinstance(c, int):
                out.extend(chr(c).encode("utf-8"))
            else:
                if not it.p.branch(c < 128):
                    raise Cut("UTF-8 bytes of a non-ASCII symbolic character")
                out.append(c)
        return out
    return list(b.bs)


def bytes_eq(it, a, b):
    if isinstance(a, SBytes) and isinstance(b, SBytes) and a.src is not None and b.src is not None:
        return mk_bool(strs.s_eq(it.p, a.src, b.src))  # UTF-8 encoding is injective
    x, y = bytes_atoms(it, a), bytes_atoms(it, b)
    if len(x) != len(y):
        return False
    conj = []
    for p_, q in zip(x, y):
        if isinstance(p_, int) and isinstance(q, int):
            if p_ != q:
                return False
        else:
            conj.append(strs._lit(p_) == strs._lit(q))
    return mk_bool(z3.And(conj)) if conj else True


def bytes_strip(it, b, name, args):
    atoms = bytes_atoms(it, b)
    if args and args[0] is not None:
        chars = bytes_atoms(it, args[0])
        if not all(isinstance(c, int) for c in chars):
            raise Unsupported("bytes.strip with a symbolic character set")
    else:
        chars = [9, 10, 11, 12, 13, 32]

    def hit(x):
        if isinstance(x, int):
            return x in chars
        return it.p.branch(z3.Or([x == c for c in chars]))
    if name in ("lstrip", "strip"):
        while atoms and hit(atoms[0]):
            atoms = atoms[1:]
    if name in ("rstrip", "strip"):
        while atoms and hit(atoms[-1]):
            atoms = atoms[:-1]
    return SBytes(atoms)


def bytes_find(it, hay, needle):
    hs, ns = bytes_atoms(it, hay), bytes_atoms(it, needle)
    return strs.s_find(it.p, SStr(hs), SStr(ns))


def bytes_contains(it, hay, needle):
    if isinstance(needle, (int, SInt)):
        hs = bytes_atoms(it, hay)
        disj = [strs._lit(h) == zint(needle) for h in hs]
        return mk_bool(z3.Or(disj)) if disj else False
    r = bytes_find(it, hay, needle)
    return (r >= 0) if isinstance(r, int) else mk_bool(r.e >= 0)


class SByteArray:
    """bytearray holding symbolic bytes (pyserial Packetizer buffer)."""

    def __init__(self, atoms=()):
        self.atoms = list(atoms)

    def __symex_getattr__(self, it, name):
        return SMethodOf(self, name)

    def __symex_contains__(self, it, needle):
        return bytes_contains(it, SBytes(self.atoms), needle)

    def __symex_iter__(self, it):
        return [mk_int(b) if not isinstance(b, int) else b for b in self.atoms]

    def __symex_getslice__(self, it, lo, hi):
        n = len(self.atoms)
        lo, hi = fix_bound(it, lo, n), fix_bound(it, hi, n)
        return SByteArray(self.atoms[lo:hi])

    def __symex_getitem__(self, it, k):
        k = pin_index(it, k, len(self.atoms))
        if not -len(self.atoms) <= k < len(self.atoms):
            raise prog(IndexError("bytearray index out of range"))
        b = self.atoms[k]
        return b if isinstance(b, int) else mk_int(b)

    def __len__(self):
        return len(self.atoms)

    def __symex_len__(self, it):
        return len(self.atoms)

    def __repr__(self):
        return f"SByteArray({self.atoms})"


def _mk_bytes(cs):
    cs = list(cs)
    if all(isinstance(c, int) for c in cs):
        return bytes(cs)
    return SBytes(cs)


class SMethodOf:
    def __init__(self, recv, name):
        self.recv, self.name = recv, name


def _byteseq_method(it, atoms, name, args, wrap):
    """split / partition / rpartition / find / startswith / endswith of a byte sequence whose
    atoms may be symbolic, through the string models (a byte is a code point below 256); the
    separator / needle must be concrete.  Returns MISSING for other methods."""
    def as_text(x):
        bs = bytes_atoms(it, x)
        if not all(isinstance(c, int) for c in bs):
            raise Unsupported(f"bytes.{name} with a symbolic separator")
        return "".join(chr(c) for c in bs)
    s = SStr(list(atoms))
    if name == "split" and args and args[0] is not None:
        maxsplit = args[1] if len(args) > 1 else -1
        return [wrap(x.cs) for x in strs.s_split(it.p, s, as_text(args[0]), maxsplit)]
    if name in ("partition", "rpartition"):
        sep = as_text(args[0])
        if name == "partition":
            parts = strs.s_split(it.p, s, sep, 1)
        else:
            parts = [SStr(tuple(reversed(x.cs))) for x in reversed(strs.s_split(
                it.p, SStr(tuple(reversed(s.cs))), sep, 1))]
        sepb = wrap([ord(c) for c in sep])
        if len(parts) == 2:
            return (wrap(parts[0].cs), sepb, wrap(parts[1].cs))
        return (wrap(parts[0].cs), wrap([]), wrap([])) if name == "partition" else \
            (wrap([]), wrap([]), wrap(parts[0].cs))
    if name == "find":
        return strs.s_find(it.p, s, as_text(args[0]), *(args[1:2]))
    if name in ("startswith", "endswith"):
        fn = strs.s_startswith if name == "startswith" else strs.s_endswith
        alts = args[0] if isinstance(args[0], tuple) else (args[0],)
        res = [fn(it.p, s, as_text(a)) for a in alts]
        if any(r is True for r in res):
            return True
        res = [zbool(mk_bool(r)) for r in res if r is not False]
        return mk_bool(z3.Or(res)) if res else False
    return MISSING


def bytearray_method(it, recv, name, args, kwargs):
    if name == "extend":
        recv.atoms.extend(bytes_atoms(it, args[0]))
        return None
    if name != "split" or len(bytes_atoms(it, args[0])) != 1:
        r = _byteseq_method(it, recv.atoms, name, args, SByteArray)
        if r is not MISSING:
            return r
    if name == "split":
        sep = bytes_atoms(it, args[0])
        maxsplit = args[1] if len(args) > 1 else -1
        if len(sep) != 1 or not isinstance(sep[0], int):
            raise Unsupported("bytearray.split with a separator that is not one concrete byte")
        parts = strs.s_split(it.p, SStr(recv.atoms), chr(sep[0]) if sep[0] < 0x110000 else None,
                             maxsplit)
        return [SByteArray(x.cs) for x in parts]
    if name == "decode":
        opaque = getattr(it, "opaque_decode", None)
        if opaque is not None and not all(isinstance(x, int) for x in recv.atoms):
            return opaque(recv.atoms)  # kept as a function of the byte tuple
        return bytes_decode(it, SBytes(recv.atoms), args, kwargs)
    if name == "clear":
        recv.atoms.clear()
        return None
    raise Unsupported(f"bytearray.{name}")


def bytes_decode(it, b, args, kwargs):
    """bytes.decode: ASCII bytes map to themselves; anything else is a functional term of the
    byte tuple (Decoded), which is all the framing property needs."""
    if isinstance(b, SBytes) and b.src is not None:
        return b.src
    atoms = bytes_atoms(it, b)
    if all(isinstance(x, int) for x in atoms):
        return it.nat(lambda: bytes(atoms).decode(*args, **kwargs))
    opaque = getattr(it, "opaque_decode", None)
    if opaque is not None:
        return opaque(atoms)  # kept as a function of the byte tuple
    cs = []
    for x in atoms:
        if isinstance(x, int):
            if x >= 128:
                raise Cut("decode of non-ASCII bytes mixed with symbolic bytes")
            cs.append(x)
        else:
            if not it.p.branch(x < 128):
                raise Cut("decode of a non-ASCII symbolic byte")
            cs.append(x)
    return SStr(cs)


# ------------------------------------------------------------------------------------------------
# arithmetic
def binop(it, op, a, b, inplace=False):
    t = type(op)
    if hasattr(a, "__symex_binop__"):
        return a.__symex_binop__(it, t, b)
    if hasattr(b, "__symex_rbinop__"):
        return b.__symex_rbinop__(it, t, a)
    if isinstance(a, (SStr, str)) and isinstance(b, (SStr, str)) and (is_sym(a) or is_sym(b)):
        if t is ast.Add:
            return strs.s_concat(a, b)
        raise Unsupported(f"string operator {t.__name__}")
    if isinstance(a, str) and t is ast.Mod and contains_sym(b, 2):
        return _percent_template(it, a, b)
    if isinstance(a, (SStr,)) or isinstance(b, (SStr,)):
        if t is ast.Mod:
            return Opaque()
        if t is ast.Add:
            raise prog(TypeError("can only concatenate str to str"))
        if t is ast.Mult and isinstance(a, SStr) and isinstance(b, int):
            return SStr(a.cs * b)
        raise Unsupported(f"operator {t.__name__} on str")
    if isinstance(a, Opaque) or isinstance(b, Opaque):
        if t in (ast.Add, ast.Mod):
            return Opaque()
        raise Unsupported("operator on opaque text")
    if isinstance(a, str) and t is ast.Mod and contains_sym(b, 2):
        return Opaque()
    if isinstance(a, (SBytes, bytes, bytearray)) and isinstance(b, (SBytes, bytes, bytearray)) \
            and (is_sym(a) or is_sym(b)):
        if t is ast.Add:
            return SBytes(bytes_atoms(it, a) + bytes_atoms(it, b))
        raise Unsupported("bytes operator")
    if isinstance(a, (SReal, float)) or isinstance(b, (SReal, float)):
        if isinstance(a, SYMS) or isinstance(b, SYMS):
            if isinstance(a, (SReal, SInt, int, float)) and isinstance(b, (SReal, SInt, int, float)):
                x, y = zreal(a), zreal(b)
                if t is ast.Add:
                    return SReal(x + y)
                if t is ast.Sub:
                    return SReal(x - y)
                if t is ast.Mult:
                    if not (isinstance(a, (int, float)) or isinstance(b, (int, float))):
                        raise Unsupported("product of two symbolic reals")
                    return SReal(x * y)
                if t is ast.Div and isinstance(b, (int, float)):
                    return SReal(x / y)
            raise Unsupported(f"real operator {t.__name__}")
    if isinstance(a, (SInt, SBool)) or isinstance(b, (SInt, SBool)):
        if not (isinstance(a, (SInt, SBool, int)) and isinstance(b, (SInt, SBool, int))):
            if isinstance(a, (str, bytes, list, tuple)) or isinstance(b, (str, bytes, list, tuple)):
                if t is ast.Mult:
                    # sequence repetition by a symbolic count: one fork per feasible count
                    seq, cnt = (a, b) if isinstance(b, (SInt, SBool)) else (b, a)
                    n = enumerate_int(it, cnt, -1, it.LOOP_BOUND)
                    return seq * n
            raise prog(TypeError(f"unsupported operand type(s) for {t.__name__}: "
                                 f"'{sym_type(a).__name__}' and '{sym_type(b).__name__}'"))
        x, y = zint(a), zint(b)
        if t is ast.Add:
            return mk_int(x + y)
        if t is ast.Sub:
            return mk_int(x - y)
        if t is ast.Mult:
            if is_sym(a) and is_sym(b):
                raise Unsupported("product of two symbolic integers")
            return mk_int(x * y)
        if t in (ast.FloorDiv, ast.Mod):
            if is_sym(b):
                raise Unsupported("division by a symbolic integer")
            if int(b) == 0:
                raise prog(ZeroDivisionError("integer division or modulo by zero"))
            if int(b) < 0:
                raise Unsupported("division by a negative constant")
            # z3 div/mod by a positive constant are floor div / non-negative mod, like Python
            return mk_int(x / y) if t is ast.FloorDiv else mk_int(x % y)
        if t in (ast.LShift, ast.RShift) and not is_sym(b) and 0 <= int(b) <= 64:
            k = 2 ** int(b)
            return mk_int(x * k) if t is ast.LShift else mk_int(x / k)  # floor, like Python
        if t is ast.BitAnd and not is_sym(b) and int(b) >= 0 and (int(b) + 1) & int(b) == 0:
            return mk_int(x % (int(b) + 1))  # mask 2**k - 1
        if t is ast.BitAnd and not is_sym(a) and int(a) >= 0 and (int(a) + 1) & int(a) == 0:
            return mk_int(y % (int(a) + 1))
        if t is ast.Div:
            if is_sym(b) or int(b) <= 0:
                raise Unsupported("true division by a symbolic / non-positive integer")
            # exact rational; equals the float result while the operands stay below 2**53
            return SReal(z3.ToReal(x) / z3.RealVal(int(b)))
        if t in (ast.BitAnd, ast.BitOr, ast.BitXor):
            lim = 2 ** 62
            if it.p.branch(z3.And(x >= 0, y >= 0, x < lim, y < lim)):
                bx, by = z3.Int2BV(x, 64), z3.Int2BV(y, 64)
                r = bx & by if t is ast.BitAnd else bx | by if t is ast.BitOr else bx ^ by
                return mk_int(z3.BV2Int(r))
            raise Unsupported(f"integer operator {t.__name__} on a negative / huge symbolic integer")
        raise Unsupported(f"integer operator {t.__name__}")
    return MISSING


# ------------------------------------------------------------------------------------------------
# AwesomeVersion on symbolic text
class SymVersion:
    def __init__(self, s):
        self.s = s


def _vkey(v):
    if isinstance(v, SymVersion):
        return tuple(c if isinstance(c, int) else ("R", c.n.get_id()) if isinstance(c, Render)
                     else c.get_id() for c in v.s.cs)
    return str(v)


def version_cmp(it, op, a, b):
    """Outcome of an AwesomeVersion comparison involving symbolic text: an uninterpreted function
    of the two operands (consistent within a path): True / False / raises the library's
    comparison exception."""
    from awesomeversion import AwesomeVersionCompareException
    key = ("vcmp", op, _vkey(a), _vkey(b))
    memo = it.p.memo
    if key not in memo:
        memo[key] = (it.p.fresh_bool("av_raises"), it.p.fresh_bool("av_result"))
    raises, res = memo[key]
    if it.truth(raises):
        raise prog(AwesomeVersionCompareException("symbolic"))
    return res


# ------------------------------------------------------------------------------------------------
# voluptuous: structural walker over the real schema objects
def apply_validator(it, v, value):
    if isinstance(v, vol.Schema):
        return apply_validator(it, v.schema, value)
    if isinstance(v, vol.Object):
        return apply_object(it, v, value)
    if isinstance(v, vv.All):
        try:
            for sub in v.validators:
                value = apply_validator(it, sub, value)
        except vol.Invalid as exc:
            if v.msg is None:
                raise
            raise prog(vol.AllInvalid(Opaque() if is_sym(v.msg) else v.msg))
        return value
    if isinstance(v, vv.Any):
        error = None
        for sub in v.validators:
            try:
                return apply_validator(it, sub, value)
            except vol.Invalid as exc:
                if error is None:
                    error = exc
        if error is not None and v.msg is None:
            raise error
        raise prog(vol.AnyInvalid(v.msg or "no valid value found"))
    if isinstance(v, dict):
        return apply_dict(it, v, value)
    if v is None:
        if value is not None:
            raise prog(vol.ScalarInvalid("not a valid value"))
        return value
    if isinstance(v, type):
        if not m_isinstance(it, [value, v], {}):
            raise prog(vol.TypeInvalid("expected " + v.__name__))
        return value
    if isinstance(v, (vv.In, vv.Range, vv.Coerce)):
        try:
            return it.call_body(type(v).__call__, [v, value], {})
        except ValueError as exc:
            if isinstance(exc, vol.Invalid):
                raise
            raise prog(vol.ValueInvalid("not a valid value"))
    if callable(v):
        try:
            return it.call(v, [value], {})
        except vol.Invalid:
            raise
        except ValueError:
            raise prog(vol.ValueInvalid("not a valid value"))
    if isinstance(v, (str, int, float, bytes)):
        if it.truth(mk_not(sym_eq(it, value, v))):
            raise prog(vol.ScalarInvalid("not a valid value"))
        return value
    raise Unsupported(f"voluptuous schema element {type(v).__name__}")


def mk_not(r):
    return (not r) if isinstance(r, bool) else mk_bool(z3.Not(zbool(r)))


def apply_object(it, v, value):
    """vol.Object: attribute-wise, None attributes skipped, *all* attributes validated and the
    errors collected (voluptuous raises MultipleInvalid at the end), then type(data)(**out)."""
    if v.cls is not vol.UNDEFINED and not isinstance(value, v.cls):
        raise prog(vol.ObjectInvalid("expected a " + repr(v.cls)))
    out = {}
    errors = []
    for key, val in list(vars(value).items()):
        if val is None:
            continue
        if key not in v:
            errors.append(prog(vol.Invalid("extra keys not allowed")))
            continue
        try:
            out[key] = apply_validator(it, v[key], val)
        except vol.MultipleInvalid as exc:
            errors.extend(exc.errors)
        except vol.Invalid as exc:
            errors.append(exc)
    if errors:
        raise prog(vol.MultipleInvalid(errors))
    return it.call(type(value), [], out)


def apply_dict(it, schema, data):
    if not isinstance(data, dict):
        raise prog(vol.DictInvalid("expected a dictionary"))
    out = {}
    errors = []
    for key, val in list(data.items()):
        sk = dict_find(it, schema, key)
        if sk is MISSING:
            errors.append(prog(vol.Invalid("extra keys not allowed")))
            continue
        try:
            out[key] = apply_validator(it, schema[sk], val)
        except vol.MultipleInvalid as exc:
            errors.extend(exc.errors)
        except vol.Invalid as exc:
            errors.append(exc)
    if errors:
        raise prog(vol.MultipleInvalid(errors))
    return out


def storing_constructor(cls):
    """Constructors that only store their arguments (safe to run natively on symbolic data)."""
    mod = cls.__module__ or ""
    if issubclass(cls, tuple) and hasattr(cls, "_fields") and "__new__" in cls.__dict__ and \
            "__init__" not in cls.__dict__:
        return True  # collections.namedtuple / typing.NamedTuple: stores its fields
    return mod.startswith("voluptuous") or cls in (collections.deque,)


# ------------------------------------------------------------------------------------------------
# struct / binascii
_HEX_RANGES = [(48, 57), (65, 70), (97, 102)]


def hexval(c):
    if isinstance(c, int):
        return int(chr(c), 16)
    return z3.If(c <= 57, c - 48, z3.If(c <= 70, c - 55, c - 87))


def m_unhexlify(it, args, kwargs):
    (s,) = args
    if isinstance(s, SBytes):
        atoms = bytes_atoms(it, s)
    elif isinstance(s, SStr):
        s = strs.expand(it.p, s)
        atoms = list(s.cs)
        nonascii = [c > 127 for c in atoms if not isinstance(c, int)]
        if any(isinstance(c, int) and c > 127 for c in atoms) or \
                (nonascii and it.p.branch(z3.Or(nonascii))):
            raise prog(ValueError("string argument should contain only ASCII characters"))
    else:
        return MISSING
    if len(atoms) % 2:
        raise prog(binascii.Error("Odd-length string"))
    conj = [strs.in_ranges(c, _HEX_RANGES) for c in atoms]
    conj = [c if not isinstance(c, bool) else z3.BoolVal(c) for c in conj]
    if conj and not it.p.branch(z3.And(conj)):
        raise prog(binascii.Error("Non-hexadecimal digit found"))
    out = []
    for i in range(0, len(atoms), 2):
        a0, a1 = atoms[i], atoms[i + 1]
        if not isinstance(a0, int) and not isinstance(a1, int):
            # peephole: the two digits were produced by hexlify() from one byte term
            hit = it.p.memo.get(("hexpair", a0.get_id(), a1.get_id()))
            if hit is not None:
                out.append(hit[0])
                continue
        h, l = hexval(a0), hexval(a1)
        out.append(16 * h + l)
    return SBytes(out)


def m_hexlify(it, args, kwargs):
    (b,) = args
    if not isinstance(b, SBytes):
        return MISSING
    out = []
    for x in bytes_atoms(it, b):
        if isinstance(x, int):
            out.extend(binascii.hexlify(bytes([x])))
            continue
        pair = [z3.If(d < 10, 48 + d, 87 + d) for d in (x / 16, x % 16)]
        it.p.memo[("hexpair", pair[0].get_id(), pair[1].get_id())] = (x, pair)
        out.extend(pair)
    return SBytes(out)


def _struct_fmt(fmt):
    """Number of 16-bit words of a '<nH' / '<HH..' format, else None."""
    fmt = lower_str(fmt) if isinstance(fmt, SStr) else fmt
    if not isinstance(fmt, str):
        raise Unsupported("struct with a symbolic format")
    import re
    m = re.fullmatch(r"<((\d*H)+)", fmt)
    if not m:
        return None
    return sum(int(n) if n else 1 for n in re.findall(r"(\d*)H", fmt))


def m_struct_unpack(it, args, kwargs):
    fmt, data = args
    if not is_sym(data):
        return MISSING
    n = _struct_fmt(fmt)
    if n is None:
        raise Unsupported(f"struct.unpack format {fmt!r}")
    atoms = bytes_atoms(it, data)
    if len(atoms) != 2 * n:
        raise prog(struct.error(f"unpack requires a buffer of {2 * n} bytes"))
    return tuple(word_of(it, atoms[2 * i], atoms[2 * i + 1]) for i in range(n))


def word_of(it, lo, hi):
    """Little-endian 16-bit word of two byte atoms (peephole: bytes produced by pack('<H'))."""
    if not isinstance(lo, int) and not isinstance(hi, int):
        hit = it.p.memo.get(("word", lo.get_id(), hi.get_id()))
        if hit is not None:
            return mk_int(hit[0])
    return mk_int(strs._lit(lo) + 256 * strs._lit(hi))


def m_struct_pack(it, args, kwargs):
    fmt, vals = args[0], args[1:]
    if not any(is_sym(v) for v in vals):
        return MISSING
    n = _struct_fmt(fmt)
    if n is None:
        raise Unsupported(f"struct.pack format {fmt!r}")
    if len(vals) != n:
        raise prog(struct.error(f"pack expected {n} items for packing (got {len(vals)})"))
    out = []
    for v in vals:
        if not isinstance(v, (SInt, SBool, int)):
            raise prog(struct.error("required argument is not an integer"))
        e = zint(v)
        if not it.p.branch(z3.And(e >= 0, e <= 65535)):
            raise prog(struct.error("ushort format requires 0 <= number <= 65535"))
        lo, hi = e % 256, e / 256
        it.p.memo[("word", lo.get_id(), hi.get_id())] = (e, lo, hi)
        out.extend([lo, hi])
    return SBytes(out)


# ------------------------------------------------------------------------------------------------
# built-in functions
def m_int(it, args, kwargs):
    if kwargs or len(args) != 1:
        if len(args) == 2 and not kwargs and isinstance(args[0], SStr) and args[1] in (10, 16):
            if args[1] == 10:
                return strs.py_int_of_str(it.p, args[0])
            return strs.py_int_of_hex(it.p, args[0])
        if any(is_sym(a) for a in args) or any(is_sym(a) for a in kwargs.values()):
            raise Unsupported("int() with base on symbolic data")
        return MISSING
    a = args[0]
    if isinstance(a, SInt):
        return a
    if isinstance(a, SBool):
        return mk_int(zint(a))
    if isinstance(a, SStr):
        a2 = lower_str(a)
        if isinstance(a2, str):
            return it.nat(lambda: int(a2))
        return strs.py_int_of_str(it.p, a)
    if isinstance(a, SBytes):
        return strs.py_int_of_str(it.p, SStr(bytes_atoms(it, a)))
    if isinstance(a, SFloat):
        raise Unsupported("int() of a symbolic float")
    if isinstance(a, Opaque):
        raise Unsupported("int() of opaque text")
    if isinstance(a, SReal):
        # truncation toward zero (ToInt is floor)
        return mk_int(z3.If(a.e >= 0, z3.ToInt(a.e), -z3.ToInt(-a.e)))
    return MISSING


def m_str(it, args, kwargs):
    if len(args) != 1 or kwargs:
        if any(is_sym(a) for a in args):
            raise Unsupported("str() with encoding on symbolic data")
        return MISSING
    a = args[0]
    if isinstance(a, (SStr, Opaque)):
        return a
    if isinstance(a, SInt):
        return strs.py_str_of_int(a)
    if isinstance(a, SBool):
        if it.truth(a):
            return "True"
        return "False"
    if isinstance(a, (SFloat, SReal)):
        return Opaque()
    if isinstance(a, SBytes):
        return Opaque()
    if isinstance(a, BaseException) and contains_sym(a.args, 2):
        return Opaque()
    if contains_sym(a, 2):
        return Opaque()
    return MISSING


def m_float(it, args, kwargs):
    if len(args) != 1:
        return MISSING
    a = args[0]
    if isinstance(a, SStr):
        a2 = lower_str(a)
        if isinstance(a2, str):
            return it.nat(lambda: float(a2))
        return strs.py_float_of_str(it.p, a)
    if isinstance(a, SInt):
        return SReal(z3.ToReal(a.e))
    if isinstance(a, (SFloat, SReal)):
        return a
    if isinstance(a, Opaque):
        raise Unsupported("float() of opaque text")
    return MISSING


def m_len(it, args, kwargs):
    (a,) = args
    if isinstance(a, SStr):
        n, _ = strs.s_len(it.p, a)
        return n
    if isinstance(a, SBytes):
        return len(bytes_atoms(it, a))
    if hasattr(a, "__symex_len__"):
        return a.__symex_len__(it)
    if isinstance(a, SByteArray):
        return len(a.atoms)
    if is_sym(a):
        raise prog(TypeError(f"object of type '{sym_type(a).__name__}' has no len()"))
    return it.nat(lambda: len(a))


def m_bool(it, args, kwargs):
    if not args:
        return False
    return it.truth(args[0])


def m_isinstance(it, args, kwargs):
    obj, cls = args
    if is_sym(obj) or isinstance(obj, Opaque):
        t = sym_type(obj)
        if isinstance(cls, tuple):
            return any(issubclass(t, c) for c in cls)
        return issubclass(t, cls)
    if isinstance(obj, SByteArray):
        t = bytearray
        return any(issubclass(t, c) for c in cls) if isinstance(cls, tuple) else issubclass(t, cls)
    return it.nat(lambda: isinstance(obj, cls))


def m_type(it, args, kwargs):
    if len(args) == 1:
        return sym_type(args[0])
    return MISSING


def m_getattr(it, args, kwargs):
    name = lower_str(args[1]) if isinstance(args[1], SStr) else args[1]
    if not isinstance(name, str):
        raise Unsupported("getattr with a symbolic attribute name")
    if len(args) > 2:
        return it.getattr(args[0], name, args[2])
    return it.getattr(args[0], name)


def m_setattr(it, args, kwargs):
    name = lower_str(args[1]) if isinstance(args[1], SStr) else args[1]
    if not isinstance(name, str):
        raise Unsupported("setattr with a symbolic attribute name")
    it.setattr(args[0], name, args[2])
    return None


def m_hasattr(it, args, kwargs):
    try:
        m_getattr(it, args[:2], {})
        return True
    except AttributeError:
        return False


def _extreme(it, args, kwargs, pick_gt):
    if "key" in kwargs:
        if contains_sym(args, 3):
            raise Unsupported("max/min with key on symbolic data")
        return MISSING
    if len(args) == 1:
        items = list(_lazy(it, args[0])) if isinstance(args[0], types.GeneratorType) \
            else it.iterate(args[0])
    else:
        items = list(args)
    if not items:
        if "default" in kwargs:
            return kwargs["default"]
        raise prog(ValueError("arg is an empty sequence"))
    if not any(is_sym(x) for x in items):
        return it.nat(lambda: (max if pick_gt else min)(items))
    if any(isinstance(x, (SReal, float)) for x in items):
        best = zreal(items[0])
        for x in items[1:]:
            e = zreal(x)
            best = z3.If(e > best, e, best) if pick_gt else z3.If(e < best, e, best)
        return SReal(best)
    best = zint(items[0])
    for x in items[1:]:
        e = zint(x)
        best = z3.If(e > best, e, best) if pick_gt else z3.If(e < best, e, best)
    return mk_int(best)


def m_max(it, args, kwargs):
    return _extreme(it, args, kwargs, True)


def m_min(it, args, kwargs):
    return _extreme(it, args, kwargs, False)


def m_all(it, args, kwargs):
    for x in _lazy(it, args[0]):
        if not it.truth(x):
            return False
    return True


def m_any(it, args, kwargs):
    for x in _lazy(it, args[0]):
        if it.truth(x):
            return True
    return False


def _lazy(it, v):
    if isinstance(v, types.GeneratorType):
        return v
    return it.iterate(v)


def m_next(it, args, kwargs):
    gen = args[0]
    try:
        return next(gen)
    except StopIteration:
        if len(args) > 1:
            return args[1]
        raise prog(StopIteration())


def m_range(it, args, kwargs):
    if not any(is_sym(a) for a in args):
        return MISSING
    vals = [enumerate_int(it, a, 0, it.LOOP_BOUND) if is_sym(a) else a for a in args]
    return range(*vals)


def enumerate_int(it, v, lo, hi):
    """Make a symbolic integer concrete by enumerating its feasible values through solver
    models (one fork per value); values outside lo..hi end the path as outside the bound."""
    e = zint(v)
    for _ in range(hi - lo + 2):
        x = it.p.current_model().eval(e, model_completion=True).as_long()
        if it.p.branch(e == x):
            if not lo <= x <= hi:
                raise Cut(f"loop / range count outside the unwinding bound {lo}..{hi}")
            return x
    raise Unsupported("integer enumeration did not converge")


def m_list(it, args, kwargs):
    if not args:
        return []
    return list(_lazy(it, args[0])) if isinstance(args[0], types.GeneratorType) else it.iterate(args[0])


def m_tuple(it, args, kwargs):
    if not args:
        return ()
    return tuple(m_list(it, args, kwargs))


def m_dict(it, args, kwargs):
    d = {}
    if args:
        src = args[0]
        items = list(src.items()) if isinstance(src, dict) else [tuple(it.iterate(x)) for x in it.iterate(src)]
        for k, v in items:
            dict_store(it, d, k, v)
    for k, v in kwargs.items():
        d[k] = v
    return d


def m_sorted(it, args, kwargs):
    items = m_list(it, args[:1], {})
    if not contains_sym(items, 2):
        key = kwargs.get("key")
        if key is None or not hasattr(key, "node"):
            return it.nat(lambda: sorted(items, **kwargs))
    key = kwargs.get("key")
    keys = [it.call(key, [x]) if key is not None else x for x in items]
    if not all(isinstance(k, (int, SInt, SBool)) and not isinstance(k, bool) or isinstance(k, bool)
               for k in keys):
        raise Unsupported("sorted() of symbolic data that is not integers")
    out = []  # (key, item), ascending, stable
    for k, x in zip(keys, items):
        pos = len(out)
        while pos > 0 and it.truth(mk_bool(zint(k) < zint(out[pos - 1][0]))):
            pos -= 1
        out.insert(pos, (k, x))
    res = [x for _, x in out]
    if kwargs.get("reverse"):
        # reverse=True keeps the original order of equal elements
        res = []
        for k, x in zip(keys, items):
            pos = len(res)
            while pos > 0 and it.truth(mk_bool(zint(k) > zint(res[pos - 1][0]))):
                pos -= 1
            res.insert(pos, (k, x))
        res = [x for _, x in res]
    return res


def m_enumerate(it, args, kwargs):
    start = args[1] if len(args) > 1 else kwargs.get("start", 0)
    return [(i + start, x) for i, x in enumerate(m_list(it, args[:1], {}))]


def m_zip(it, args, kwargs):
    return list(zip(*[m_list(it, [a], {}) for a in args]))


def m_iter(it, args, kwargs):
    if len(args) == 1 and not hasattr(args[0], "__next__") and contains_sym(args[0], 2):
        return iter(it.iterate(args[0] if not isinstance(args[0], dict) else list(args[0].keys())))
    return MISSING


def m_repr(it, args, kwargs):
    if isinstance(args[0], (SInt,)) :
        return m_str(it, args, kwargs)
    if contains_sym(args[0], 3):
        return Opaque()
    return MISSING


def m_bytearray(it, args, kwargs):
    if not args:
        return SByteArray()
    if is_sym(args[0]):
        return SByteArray(bytes_atoms(it, args[0]))
    return MISSING


def m_abs(it, args, kwargs):
    a = args[0]
    if isinstance(a, SInt):
        return mk_int(z3.If(a.e >= 0, a.e, -a.e))
    if isinstance(a, SReal):
        return SReal(z3.If(a.e >= 0, a.e, -a.e))
    return MISSING


def m_divmod(it, args, kwargs):
    a, b = args
    if not (is_sym(a) or is_sym(b)):
        return MISSING
    return (binop(it, ast.FloorDiv(), a, b), binop(it, ast.Mod(), a, b))


def m_round(it, args, kwargs):
    if any(is_sym(a) for a in args):
        if isinstance(args[0], (SInt, SBool)) and len(args) == 1:
            return args[0]
        raise Unsupported("round() of a symbolic number")
    return MISSING


def m_callable(it, args, kwargs):
    from .interp import Closure
    if isinstance(args[0], Closure):
        return True
    return MISSING


def m_id(it, args, kwargs):
    return id(args[0])


def m_print(it, args, kwargs):
    return None


def m_bytes(it, args, kwargs):
    if len(args) == 1 and isinstance(args[0], SByteArray):
        return _mk_bytes(args[0].atoms)
    if len(args) == 1 and isinstance(args[0], SBytes):
        return args[0]
    if len(args) == 1 and isinstance(args[0], (list, tuple)) and contains_sym(args[0], 2):
        return _mk_bytes([x.e if isinstance(x, SInt) else x for x in args[0]])
    return MISSING


def m_map(it, args, kwargs):
    fn, seqs = args[0], [m_list(it, [a], {}) for a in args[1:]]
    return iter([it.call(fn, list(xs)) for xs in zip(*seqs)])


def m_chain(it, args, kwargs):
    out = []
    for a in args:
        out.extend(m_list(it, [a], {}))
    return iter(out)


def m_partial(it, args, kwargs):
    fn, pargs, pkw = args[0], list(args[1:]), dict(kwargs)

    def bound(*a, **k):
        kw = dict(pkw)
        kw.update(k)
        return it.call(fn, pargs + list(a), kw)
    bound.__symex_native__ = True
    bound.__name__ = getattr(fn, "__name__", "partial")
    bound.func, bound.args, bound.keywords = fn, tuple(pargs), pkw
    return bound


def m_sum(it, args, kwargs):
    items = list(_lazy(it, args[0])) if isinstance(args[0], types.GeneratorType) \
        else it.iterate(args[0])
    start = args[1] if len(args) > 1 else kwargs.get("start", 0)
    if not any(is_sym(x) for x in items) and not is_sym(start):
        return it.nat(lambda: sum(items, start))
    acc = start
    for x in items:
        acc = binop(it, ast.Add(), acc, x) if is_sym(acc) or is_sym(x) else acc + x
    return acc


def m_format(it, args, kwargs):
    if contains_sym(args, 2):
        return Opaque()
    return MISSING


BUILTINS = {
    int: m_int, str: m_str, float: m_float, len: m_len, bool: m_bool, isinstance: m_isinstance,
    type: m_type, getattr: m_getattr, setattr: m_setattr, hasattr: m_hasattr, max: m_max,
    min: m_min, all: m_all, any: m_any, next: m_next, list: m_list, tuple: m_tuple, dict: m_dict,
    sorted: m_sorted, range: m_range, enumerate: m_enumerate, zip: m_zip, repr: m_repr, bytearray: m_bytearray,
    abs: m_abs, divmod: m_divmod, round: m_round, callable: m_callable, id: m_id, print: m_print, format: m_format, sum: m_sum, map: m_map, bytes: m_bytes, iter: m_iter,
    itertools.chain: m_chain, functools.partial: m_partial,
    binascii.unhexlify: m_unhexlify, binascii.hexlify: m_hexlify,
    struct.unpack: m_struct_unpack, struct.pack: m_struct_pack,
}

SAFE_METHODS = {
    "items", "values", "keys", "copy", "append", "appendleft", "extend", "popleft", "clear",
    "insert", "reverse", "__len__", "__iter__",
}


def call_model(it, fn, args, kwargs):
    m = BUILTINS.get(fn) if isinstance(fn, (type, types.BuiltinFunctionType)) else None
    if m is not None:
        r = m(it, args, kwargs)
        if r is not MISSING:
            return r
    if isinstance(fn, SMethodOf):
        if isinstance(fn.recv, SByteArray):
            return bytearray_method(it, fn.recv, fn.name, args, kwargs)
        raise Unsupported(f"method {fn.name} of {type(fn.recv).__name__}")
    # bound methods of built-in containers
    if isinstance(fn, types.BuiltinMethodType) and not isinstance(fn.__self__, types.ModuleType) \
            and fn.__self__ is not None:
        recv, name = fn.__self__, fn.__name__
        r = container_method(it, recv, name, args, kwargs)
        if r is not MISSING:
            return r
        if isinstance(recv, (dict, list, collections.deque, tuple)):
            if name in SAFE_METHODS:
                return it.nat(lambda: fn(*args, **kwargs))
    if isinstance(fn, type):
        if issubclass(fn, enum.Enum) and len(args) == 1 and not kwargs and \
                isinstance(args[0], (SInt, SBool)):
            e = zint(args[0])
            for m_ in fn:  # canonical members only (aliases share their value)
                if it.p.branch(e == int(m_.value)):
                    return m_
            raise prog(ValueError(f"symbolic value is not a valid {fn.__name__}"))
        try:
            from awesomeversion import AwesomeVersion
        except ImportError:  # pragma: no cover
            AwesomeVersion = None
        if AwesomeVersion is not None and fn is AwesomeVersion and args:
            a = args[0]
            if isinstance(a, SStr):
                a2 = lower_str(a)
                if isinstance(a2, str):
                    return it.nat(lambda: AwesomeVersion(a2))
                return SymVersion(a)
            if isinstance(a, SymVersion):
                return a
            if is_sym(a) or isinstance(a, Opaque):
                raise Unsupported("AwesomeVersion of a non-text symbolic value")
    if isinstance(fn, vol.Schema):
        return apply_validator(it, fn.schema, args[0])
    if isinstance(fn, (vv.All, vv.Any)):
        return apply_validator(it, fn, args[0])
    if isinstance(fn, (vv.In, vv.Range, vv.Coerce)):
        return it.call_body(type(fn).__call__, [fn] + list(args), kwargs)
    return MISSING


def container_method(it, recv, name, args, kwargs):
    if isinstance(recv, dict):
        if name == "get":
            v = dict_lookup_grouped(it, recv, args[0])
            return v if v is not MISSING else (args[1] if len(args) > 1 else None)
        if name == "pop":
            kk = dict_find(it, recv, args[0])
            if kk is not MISSING:
                return dict.pop(recv, kk)
            if len(args) > 1:
                return args[1]
            raise prog(KeyError(args[0]))
        if name == "setdefault":
            kk = dict_find(it, recv, args[0])
            if kk is not MISSING:
                return dict.__getitem__(recv, kk)
            dv = args[1] if len(args) > 1 else None
            dict.__setitem__(recv, args[0], dv)
            return dv
        if name == "__contains__":
            return dict_find(it, recv, args[0]) is not MISSING
        if name == "update":
            for a in args:
                items = list(a.items()) if isinstance(a, dict) else [tuple(it.iterate(x)) for x in it.iterate(a)]
                for k, v in items:
                    dict_store(it, recv, k, v)
            for k, v in kwargs.items():
                dict.__setitem__(recv, k, v)
            return None
        return MISSING
    if isinstance(recv, (list, collections.deque)):
        if name in ("index", "remove", "count") and (contains_sym(args, 2) or contains_sym(recv, 2)):
            raise Unsupported(f"list.{name} on symbolic data")
        if name == "pop" and args and is_sym(args[0]):
            raise Unsupported("list.pop at a symbolic index")
        if name in ("pop", "sort") and name == "sort" and contains_sym(recv, 2):
            raise Unsupported("list.sort on symbolic data")
        if name == "pop":
            return it.nat(lambda: recv.pop(*args))
        return MISSING
    if isinstance(recv, (bytes, bytearray)) and (contains_sym(args, 2)):
        raise Unsupported(f"bytes.{name} with symbolic argument")
    if isinstance(recv, str) and contains_sym(args, 2):
        return sym_method(it, recv, name, args, kwargs)
    return MISSING


def _unsupported(what):
    raise Unsupported(f"{what} on symbolic text")


def _assemble(it, parts):
    if any(isinstance(x, Opaque) for x in parts):
        return Opaque()
    if all(isinstance(x, str) for x in parts):
        return "".join(parts)
    out = []
    for x in parts:
        out.extend(lift_str(x).cs)
    return SStr(out)


def _format_template(it, fmt, args, kwargs):
    """str.format for templates made of literal text and plain fields {} / {0} / {name}; anything
    else (specs, conversions, attribute access, a symbolic template) is opaque text."""
    import string
    if not isinstance(fmt, str):
        return Opaque()
    parts, auto = [], 0
    try:
        fields = list(string.Formatter().parse(fmt))
    except ValueError:
        return Opaque()
    for lit, field, spec, conv in fields:
        if lit:
            parts.append(lit)
        if field is None:
            continue
        if spec or conv:
            return Opaque()
        if field == "":
            if auto >= len(args):
                raise prog(IndexError("Replacement index out of range for positional args tuple"))
            x = args[auto]
            auto += 1
        elif field.isdigit():
            if int(field) >= len(args):
                raise prog(IndexError("Replacement index out of range for positional args tuple"))
            x = args[int(field)]
        elif field.isidentifier():
            if field not in kwargs:
                raise prog(KeyError(field))
            x = kwargs[field]
        else:
            return Opaque()
        parts.append(it.format_value(x, None, None))
    return _assemble(it, parts)


def _percent_template(it, fmt, values):
    """'...' % values for templates with plain %s / %d / %i / %% only; else opaque text."""
    import re
    vals = list(values) if isinstance(values, tuple) else [values]
    parts, pos, i = [], 0, 0
    for m in re.finditer(r"%(.)", fmt):
        parts.append(fmt[pos:m.start()])
        pos = m.end()
        c = m.group(1)
        if c == "%":
            parts.append("%")
            continue
        if c not in "sdi":
            return Opaque()
        if i >= len(vals):
            raise prog(TypeError("not enough arguments for format string"))
        x = vals[i]
        i += 1
        if c in "di" and not isinstance(x, (int, SInt, SBool)):
            if isinstance(x, (str, SStr)):
                raise prog(TypeError("%d format: a real number is required, not str"))
            return Opaque()
        parts.append(it.format_value(x, None, None))
    parts.append(fmt[pos:])
    if i != len(vals):
        raise prog(TypeError("not all arguments converted during string formatting"))
    return _assemble(it, parts)


def sym_method(it, recv, name, args, kwargs):
    p = it.p
    if isinstance(recv, SBytes):
        if name in ("lstrip", "rstrip", "strip"):
            return bytes_strip(it, recv, name, args)
        if name == "decode":
            return bytes_decode(it, recv, args, kwargs)
        if name == "hex":
            return SStr(m_hexlify(it, [recv], {}).bs)
        r = _byteseq_method(it, bytes_atoms(it, recv), name, args, lambda cs: _mk_bytes(cs))
        if r is not MISSING:
            return r
        raise Unsupported(f"bytes.{name} on symbolic bytes")
    s = lift_str(recv)
    if name == "rstrip":
        return strs.s_rstrip(p, s, *args)
    if name == "lstrip":
        return strs.s_lstrip(p, s, *args)
    if name == "strip":
        return strs.s_strip(p, s, *args)
    if name == "split":
        if not args and not kwargs:
            raise Unsupported("str.split() on whitespace")
        sep = args[0] if args else kwargs.get("sep")
        maxsplit = args[1] if len(args) > 1 else kwargs.get("maxsplit", -1)
        return strs.s_split(p, s, sep, maxsplit)
    if name == "join":
        items = m_list(it, [args[0]], {})
        return strs.s_join(p, s, items)
    if name == "find":
        return strs.s_find(p, s, args[0], *(args[1:2]))
    if name in ("startswith", "endswith"):
        fn = strs.s_startswith if name == "startswith" else strs.s_endswith
        if isinstance(args[0], tuple):
            alts = [fn(p, s, a) for a in args[0]]
            if any(a is True for a in alts):
                return True
            alts = [zbool(mk_bool(a)) for a in alts if a is not False]
            return mk_bool(z3.Or(alts)) if alts else False
        return mk_bool(fn(p, s, args[0]))
    if name == "count" and len(args) == 1 and isinstance(args[0], str) and len(args[0]) == 1:
        t = strs.expand(p, s)
        ch = ord(args[0])
        terms = [z3.If(c == ch, 1, 0) for c in t.cs if not isinstance(c, int)]
        base = sum(1 for c in t.cs if isinstance(c, int) and c == ch)
        return mk_int(z3.Sum(terms) + base) if terms else base
    if name == "isdigit":
        return strs.s_isdigit(p, s)
    if name == "encode":
        return SBytes((), src=s)
    if name == "replace":
        count = args[2] if len(args) > 2 else -1
        return strs.s_replace(p, s, args[0], args[1], count)
    if name in ("lower", "upper"):
        return strs.s_case(p, s, name)
    if name == "rsplit":
        if not args:
            raise Unsupported("str.rsplit() on whitespace")
        maxsplit = args[1] if len(args) > 1 else kwargs.get("maxsplit", -1)
        rev = strs.s_split(p, SStr(tuple(reversed(strs.expand(p, s).cs))), args[0], maxsplit)
        return [SStr(tuple(reversed(x.cs))) for x in reversed(rev)]
    if name in ("partition", "rpartition"):
        sep = lift_str(args[0])
        parts = (strs.s_split(p, s, sep, 1) if name == "partition" else
                 [SStr(tuple(reversed(x.cs))) for x in reversed(strs.s_split(
                     p, SStr(tuple(reversed(strs.expand(p, s).cs))), sep, 1))])
        if len(parts) == 2:
            return (parts[0], sep, parts[1])
        return (parts[0], "", "") if name == "partition" else ("", "", parts[0])
    if name == "isnumeric" or name == "isdecimal":
        return strs.s_isdigit(p, s) if name == "isdecimal" else _unsupported(f"str.{name}")
    if name == "zfill":
        return _unsupported("str.zfill")
    if name == "format":
        return _format_template(it, recv, args, kwargs)
    if name in ("index", "count", "splitlines", "isalpha", "title"):
        raise Unsupported(f"str.{name} on symbolic text")
    raise prog(AttributeError(f"'str' object has no attribute '{name}'"))
