"""Core of the symbolic executor: signals, symbolic values, the path object.

A *path* is one execution of a harness under a list of decisions.  Decisions come either from a
prefix (re-execution) or are made on the spot: the solver decides which sides of a branch are
feasible under the current path condition; when both are, one is taken and the other is pushed
on the worklist.  Nothing here knows about pymysensors.
"""
import time
import unicodedata

import z3


# ------------------------------------------------------------------------------------------------
# engine signals: BaseException so that interpreted `except Exception` can never swallow them
class Signal(BaseException):
    pass


class Infeasible(Signal):
    """The path condition became unsatisfiable (an assumption excluded this path)."""


class Unsupported(Signal):
    """A construct / library call the engine has no model for: the path is INCONCLUSIVE."""


class Cut(Signal):
    """The path left the stated bounds (recorded as outside the claim, not as success)."""


class SolverUnknown(Signal):
    """The solver answered unknown / timed out: the path is INCONCLUSIVE."""


class EngineBug(Signal):
    """An exception came out of the engine's own code, not out of the interpreted program."""


class PathDone(Signal):
    """The harness finished this path early (e.g. after recording a violation)."""


def prog(exc):
    """Mark an exception as raised by the interpreted program (or by a model on its behalf).
    Unmarked exceptions reaching an interpreted try/except are engine bugs, never swallowed."""
    try:
        exc._symex_prog = True
    except Exception:  # pragma: no cover - exceptions without __dict__
        pass
    return exc


def is_prog(exc):
    return getattr(exc, "_symex_prog", False)


# ------------------------------------------------------------------------------------------------
# symbolic values
class SInt:
    __slots__ = ("e",)

    def __init__(self, e):
        self.e = e

    def __repr__(self):
        return f"SInt({self.e})"


class SBool:
    __slots__ = ("e",)

    def __init__(self, e):
        self.e = e

    def __repr__(self):
        return f"SBool({self.e})"


class SReal:
    """Clock readings / timeouts (linear real arithmetic)."""

    __slots__ = ("e",)

    def __init__(self, e):
        self.e = e

    def __repr__(self):
        return f"SReal({self.e})"


class Render:
    """Atom of an SStr: the decimal rendering str(n) of an int term (variable length).

    Facts used while it stays lazy (proved against the explicit-digit model by C02/H2d):
    non-empty; characters in '-0123456789'; first char is '-' or a digit, last char is a digit;
    int(str(n)) == n; str is injective.
    """

    __slots__ = ("n",)

    def __init__(self, n):
        self.n = n

    def __repr__(self):
        return f"Render({self.n})"


class SStr:
    """String with a concrete number of atoms: int code point, z3 Int term, or Render."""

    __slots__ = ("cs",)

    def __init__(self, cs):
        self.cs = tuple(cs)

    def __repr__(self):
        return f"SStr({self.cs})"

    def has_render(self):
        return any(isinstance(c, Render) for c in self.cs)

    def is_concrete(self):
        return all(type(c) is int for c in self.cs)


class SBytes:
    """Bytes with a concrete number of atoms (int 0..255 or z3 Int term).  `src` is set when the
    value is the UTF-8 encoding of an SStr that was not expanded (kept as a functional term)."""

    __slots__ = ("bs", "src")

    def __init__(self, bs=(), src=None):
        self.bs = tuple(bs)
        self.src = src

    def __repr__(self):
        return f"SBytes({self.bs}, src={self.src})"


class SFloat:
    """Result of float(str): sign, integer mantissa M, decimal exponent K (value = ±M·10^K),
    with flags for nan / inf.  Only comparisons with concrete bounds are supported."""

    __slots__ = ("neg", "m", "k", "nan", "inf", "maxdigits")

    def __init__(self, neg, m, k, nan, inf, maxdigits):
        self.neg, self.m, self.k, self.nan, self.inf, self.maxdigits = neg, m, k, nan, inf, maxdigits


class Opaque:
    """Text produced by formatting symbolic data into log / exception messages.  Inert."""

    def __repr__(self):
        return "<opaque text>"

    def __str__(self):
        return "<opaque text>"


SYMS = (SInt, SBool, SReal, SStr, SBytes, SFloat)


def is_sym(v):
    return isinstance(v, SYMS)


def zint(v):
    if isinstance(v, SInt):
        return v.e
    if isinstance(v, SBool):
        return z3.If(v.e, 1, 0)
    if isinstance(v, int):  # includes bool and IntEnum
        return z3.IntVal(int(v))
    raise Unsupported(f"integer term of {type(v).__name__}")


def zbool(v):
    if isinstance(v, SBool):
        return v.e
    if isinstance(v, bool):
        return z3.BoolVal(v)
    if isinstance(v, z3.BoolRef):
        return v
    raise Unsupported(f"boolean term of {type(v).__name__}")


def zreal(v):
    if isinstance(v, SReal):
        return v.e
    if isinstance(v, SInt):
        return z3.ToReal(v.e)
    if isinstance(v, bool):
        return z3.RealVal(int(v))
    if isinstance(v, int):
        return z3.RealVal(v)
    if isinstance(v, float):
        return z3.RealVal(repr(v))
    raise Unsupported(f"real term of {type(v).__name__}")


def mk_int(e, simplify=False):
    """Wrap an int term; constants collapse to Python ints."""
    if isinstance(e, int):
        return e
    if simplify:
        e = z3.simplify(e)
    if z3.is_int_value(e):
        return e.as_long()
    return SInt(e)


def mk_bool(e, simplify=False):
    if isinstance(e, bool):
        return e
    if simplify:
        e = z3.simplify(e)
    if z3.is_true(e):
        return True
    if z3.is_false(e):
        return False
    return SBool(e)


def lift_str(v):
    if isinstance(v, SStr):
        return v
    if isinstance(v, str):
        return SStr([ord(c) for c in v])
    raise Unsupported(f"string value of {type(v).__name__}")


def lower_str(v):
    """SStr with all-concrete atoms -> str (else unchanged)."""
    if isinstance(v, SStr) and v.is_concrete():
        return "".join(chr(c) for c in v.cs)
    return v


def lower_bytes(v):
    if isinstance(v, SBytes) and v.src is None and all(type(b) is int for b in v.bs):
        return bytes(v.bs)
    return v


# ------------------------------------------------------------------------------------------------
# Unicode tables generated from the running interpreter (exact for it)
def _ranges(pred):
    out, start = [], None
    for cp in range(0x110000):
        if pred(chr(cp)):
            if start is None:
                start = cp
        elif start is not None:
            out.append((start, cp - 1))
            start = None
    if start is not None:
        out.append((start, 0x10FFFF))
    return out


WS_RANGES = _ranges(str.isspace)
DIGIT_BLOCKS = []  # (lo, lo+9): ten consecutive code points with decimal values 0..9
for _lo, _hi in _ranges(lambda c: unicodedata.category(c) == "Nd"):
    _cp = _lo
    while _cp <= _hi:
        assert unicodedata.decimal(chr(_cp)) == 0, hex(_cp)
        DIGIT_BLOCKS.append((_cp, _cp + 9))
        _cp += 10
ISDIGIT_RANGES = _ranges(str.isdigit)


_TERM_CACHE = {}  # (term id, table id) -> (term kept alive, result)


def in_ranges(c, ranges):
    """Membership of an atom (int or term) in a list of inclusive ranges: bool or z3 Bool."""
    if isinstance(c, int):
        return any(lo <= c <= hi for lo, hi in ranges)
    key = (c.get_id(), id(ranges))
    hit = _TERM_CACHE.get(key)
    if hit is not None:
        return hit[1]
    r = z3.Or([z3.And(c >= lo, c <= hi) if lo != hi else c == lo for lo, hi in ranges])
    _TERM_CACHE[key] = (c, r, ranges)
    return r


def digit_val(c):
    if isinstance(c, int):
        return int(unicodedata.decimal(chr(c)))
    key = (c.get_id(), "digit_val")
    hit = _TERM_CACHE.get(key)
    if hit is not None:
        return hit[1]
    e = z3.IntVal(0)
    for lo, hi in DIGIT_BLOCKS:
        e = z3.If(z3.And(c >= lo, c <= hi), c - lo, e)
    _TERM_CACHE[key] = (c, e)
    return e


# ------------------------------------------------------------------------------------------------
class Stats:
    def __init__(self):
        self.reset()

    def reset(self):
        self.sat = self.unsat = self.unknown = 0
        self.solver_time = 0.0
        self.max_query = 0.0

    def as_dict(self):
        return {"sat": self.sat, "unsat": self.unsat, "unknown": self.unknown,
                "solver_time_s": round(self.solver_time, 3),
                "max_query_s": round(self.max_query, 3)}


class Path:
    """One symbolic execution.  `prefix` = decisions to replay; new decisions are appended and
    the untaken feasible alternatives are pushed to `pending` (list of decision lists)."""

    symbolic = True
    __symex_opaque__ = True
    forker = None  # fork-mode exploration: split(n) -> index taken by this process

    def __init__(self, prefix=(), timeout_ms=10000, stats=None):
        self.prefix = list(prefix)
        self.pos = 0
        self.decisions = []
        self.pending = []
        self.solver = z3.Solver()
        self.timeout_ms = timeout_ms
        self.solver.set("timeout", timeout_ms)
        self.stats = stats or Stats()
        self.nfresh = 0
        self.model = None  # a model of the current path condition, when known
        self.pc = []  # the path condition as a list of terms (for export)
        self.vars = {}  # name -> symbolic value (for model extraction)
        self.choices = {}  # label -> chosen index (harness-level forks)
        self.goals = set()
        self.notes = []
        self.cuts = []
        self.queries = []  # exported final property queries (smt2 text), sampled
        self.memo = {}  # per-path memo for uninterpreted environment functions
        self.dirty = False  # constraints were added without a feasibility check
        self.decided = {}  # term id -> (term kept alive, truth value implied by the PC)

    # -- solver -----------------------------------------------------------------------------
    def _check(self, *extra):
        t0 = time.time()
        self.solver.push()
        try:
            self.solver.add(*extra)
            r = self.solver.check()
            if r == z3.unknown:
                # retries on a fresh solver with longer limits (incremental state and load on
                # the machine both make the first attempt flaky)
                for factor in (4, 16):
                    s2 = z3.Solver()
                    s2.set("timeout", self.timeout_ms * factor)
                    s2.add(self.solver.assertions())
                    r = s2.check()
                    if r != z3.unknown:
                        break
                m = s2.model() if r == z3.sat else None
            else:
                m = self.solver.model() if r == z3.sat else None
        finally:
            self.solver.pop()
            dt = time.time() - t0
            self.stats.solver_time += dt
            if dt > self.stats.max_query:
                self.stats.max_query = dt
        if r == z3.sat:
            self.stats.sat += 1
        elif r == z3.unsat:
            self.stats.unsat += 1
        else:
            self.stats.unknown += 1
            raise SolverUnknown(self.solver.reason_unknown())
        return r == z3.sat, m

    def _holds_in_model(self, cond):
        if self.model is None:
            return None
        v = self.model.eval(cond, model_completion=True)
        if z3.is_true(v):
            return True
        if z3.is_false(v):
            return False
        return None

    def _commit(self, cond, model=None):
        self.solver.add(cond)
        self.pc.append(cond)
        # remember decided conditions: structurally identical conditions asked again (the same
        # line is decoded more than once in a step) are answered without the solver
        if z3.is_not(cond):
            self.decided[cond.arg(0).get_id()] = (cond, False)
        else:
            self.decided[cond.get_id()] = (cond, True)
        if model is not None:
            self.model = model
        elif self.model is not None and self._holds_in_model(cond) is not True:
            self.model = None

    def add(self, *conds):
        """Constrain the path (assumption).  Feasibility is checked lazily at the next branch;
        use assume() to check now."""
        for c in conds:
            if isinstance(c, bool):
                if not c:
                    raise Infeasible()
                continue
            self._commit(c)
            self.dirty = True

    def assume(self, cond):
        cond = zbool(cond) if not isinstance(cond, z3.BoolRef) else cond
        cond = z3.simplify(cond)
        if z3.is_true(cond):
            return
        if z3.is_false(cond):
            raise Infeasible()
        if self._holds_in_model(cond) is True:
            self._commit(cond)
            return
        ok, m = self._check(cond)
        if not ok:
            raise Infeasible()
        self._commit(cond, m)

    def branch(self, cond):
        """Decide a condition; fork when both sides are feasible."""
        if isinstance(cond, bool):
            return cond
        if isinstance(cond, SBool):
            cond = cond.e
        cond = z3.simplify(cond)
        if z3.is_true(cond):
            return True
        if z3.is_false(cond):
            return False
        known = self.decided.get(cond.get_id())
        if known is not None:
            return known[1]
        if z3.is_not(cond):
            known = self.decided.get(cond.arg(0).get_id())
            if known is not None:
                return not known[1]
        if self.pos < len(self.prefix):
            d = self.prefix[self.pos]
            self.pos += 1
            self.decisions.append(d)
            self._commit(cond if d else z3.Not(cond))
            return bool(d)
        ncond = z3.Not(cond)
        h = self._holds_in_model(cond)
        mt = mf = None
        if h is True:
            t, mt = True, self.model
            f, mf = self._check(ncond)
        elif h is False:
            f, mf = True, self.model
            t, mt = self._check(cond)
        else:
            t, mt = self._check(cond)
            if t:
                self.dirty = False
                f, mf = self._check(ncond)
            elif self.dirty:
                f, mf = self._check(ncond)
                self.dirty = False
            else:
                f, mf = True, None  # PC is satisfiable by construction
        if t and f:
            if self.forker is not None:
                d = 1 if self.forker.split(2) == 0 else 0
            else:
                self.pending.append(self.decisions + [0])
                d = 1
        elif t:
            d = 1
        elif f:
            d = 0
        else:
            raise Infeasible()
        self.pos += 1
        self.decisions.append(d)
        self._commit(cond if d else ncond, mt if d else mf)
        return bool(d)

    def choose(self, n, label=None):
        """Harness-level n-way fork."""
        if n <= 1:
            return 0
        if self.pos < len(self.prefix):
            d = self.prefix[self.pos]
        elif self.forker is not None:
            d = self.forker.split(n)
        else:
            d = 0
            for k in range(n - 1, 0, -1):
                self.pending.append(self.decisions + [k])
        self.pos += 1
        self.decisions.append(d)
        if label is not None:
            self.choices[self._uniq(label, self.choices)] = d
        return d

    @staticmethod
    def _uniq(label, d):
        if label not in d:
            return label
        k = 2
        while f"{label}~{k}" in d:
            k += 1
        return f"{label}~{k}"

    def pick(self, options, label=None):
        options = list(options)
        return options[self.choose(len(options), label)]

    # -- fresh values -------------------------------------------------------------------------
    def _name(self, name):
        return self._uniq(name, self.vars)

    def fresh_int(self, name, lo=None, hi=None):
        name = self._name(name)
        v = z3.Int(name)
        if lo is not None:
            self.add(v >= lo)
        if hi is not None:
            self.add(v <= hi)
        r = SInt(v)
        self.vars[name] = r
        return r

    def fresh_bool(self, name):
        name = self._name(name)
        r = SBool(z3.Bool(name))
        self.vars[name] = r
        return r

    def fresh_real(self, name, lo=None, hi=None):
        name = self._name(name)
        v = z3.Real(name)
        if lo is not None:
            self.add(v >= lo)
        if hi is not None:
            self.add(v <= hi)
        r = SReal(v)
        self.vars[name] = r
        return r

    def fresh_char(self, name):
        name = self._name(name)
        c = z3.Int(name)
        # any Unicode scalar value (surrogates cannot come out of a decoder)
        self.add(c >= 0, c <= 0x10FFFF, z3.Or(c < 0xD800, c > 0xDFFF))
        self.vars[name] = SInt(c)
        return c

    def fresh_str(self, name, maxlen, minlen=0, alphabet=None):
        """String of symbolic code points; the length is forked on.  `alphabet`: optional list
        of inclusive code-point ranges."""
        n = minlen + self.choose(maxlen - minlen + 1, f"len({name})")
        cs = []
        for i in range(n):
            c = self.fresh_char(f"{name}[{i}]")
            if alphabet is not None:
                self.add(in_ranges(c, alphabet))
            cs.append(c)
        r = SStr(cs)
        self.vars[self._name(name)] = r
        return r

    def fresh_bytes(self, name, n):
        bs = []
        for i in range(n):
            nm = self._name(f"{name}[{i}]")
            b = z3.Int(nm)
            self.add(b >= 0, b <= 255)
            self.vars[nm] = SInt(b)
            bs.append(b)
        return SBytes(bs)

    # -- properties ---------------------------------------------------------------------------
    def goal(self, name):
        self.goals.add(name)

    def note(self, text):
        self.notes.append(text)

    def prove(self, cond):
        """Is `cond` valid under the path condition?  Returns (True, None) or (False, model)."""
        if isinstance(cond, bool):
            if cond:
                return True, None
            ok, m = self._check()
            if not ok:
                raise Infeasible()
            return False, m
        if isinstance(cond, SBool):
            cond = cond.e
        cond = z3.simplify(cond)
        if z3.is_true(cond):
            return True, None
        neg = z3.Not(cond)
        if len(self.queries) < 4:
            self.solver.push()
            self.solver.add(neg)
            self.queries.append(self.solver.to_smt2())
            self.solver.pop()
        sat, m = self._check(neg)
        return (not sat), m

    def current_model(self):
        if self.model is None:
            ok, m = self._check()
            if not ok:
                raise Infeasible()
            self.model = m
        return self.model

    def model_values(self, model=None):
        model = model or self.current_model()
        out = {}
        for name, v in self.vars.items():
            out[name] = concretize(v, model)
        return out


def _ev_int(model, e):
    if isinstance(e, int):
        return e
    return model.eval(e, model_completion=True).as_long()


def concretize(v, model):
    """Substitute a model into a (possibly nested) symbolic value."""
    if isinstance(v, SInt):
        return _ev_int(model, v.e)
    if isinstance(v, SBool):
        return z3.is_true(model.eval(v.e, model_completion=True))
    if isinstance(v, SReal):
        r = model.eval(v.e, model_completion=True)
        if z3.is_algebraic_value(r):
            r = r.approx(20)
        return float(r.numerator_as_long()) / float(r.denominator_as_long())
    if isinstance(v, SStr):
        out = []
        for c in v.cs:
            if isinstance(c, Render):
                out.append(str(_ev_int(model, c.n)))
            else:
                out.append(chr(_ev_int(model, c)))
        return "".join(out)
    if isinstance(v, SBytes):
        if v.src is not None:
            return concretize(v.src, model).encode()
        return bytes(_ev_int(model, b) for b in v.bs)
    if isinstance(v, (list, tuple)):
        return type(v)(concretize(x, model) for x in v)
    if isinstance(v, dict):
        return {concretize(k, model): concretize(x, model) for k, x in v.items()}
    if isinstance(v, z3.ExprRef):
        r = model.eval(v, model_completion=True)
        if z3.is_int_value(r):
            return r.as_long()
        if z3.is_true(r) or z3.is_false(r):
            return z3.is_true(r)
        return str(r)
    return v
