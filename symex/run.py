"""Parallel exhaustive path exploration, verdicts, replay, second-solver pass, evidence."""
import concurrent.futures as cf
import hashlib
import json
import multiprocessing as mp
import os
import random
import subprocess
import sys
import tempfile
import time
import traceback

from . import interp as I
from .core import (
    Cut, EngineBug, Infeasible, Path, PathDone, Signal, SolverUnknown, Stats, Unsupported,
)
from .world import ConcreteWorld, ViolationFound, World

VERIF = os.path.dirname(os.path.dirname(os.path.abspath(__file__)))

HELD, VIOLATION, INCONCLUSIVE, HARNESS_ERROR = 0, 1, 2, 3


class Harness:
    """One harness of a check.  fn(w) runs one path; it must behave identically in symbolic and
    concrete mode given the same choices / values."""

    def __init__(self, name, fn, bounds=None, goals=(), doc="", timeout_ms=10000, setup=None,
                 expected_cuts=()):
        self.name = name
        # reasons (substrings) for which a path may legitimately end outside the stated bounds;
        # cuts requested by the harness itself (World.cut) are always expected.  Any other cut
        # means the code under analysis left the engine's model: the verdict is INCONCLUSIVE.
        self.expected_cuts = tuple(expected_cuts)
        self.fn = fn
        self.bounds = bounds or {}
        self.goals = list(goals)
        self.doc = doc
        self.timeout_ms = timeout_ms
        self.setup = setup


_HARNESSES = []


def _explore_chunk(arg):
    """Worker: explore the subtree under `prefix` depth-first for a bounded amount of work and
    hand the rest back."""
    hidx, prefixes, max_paths, max_time, seed = arg
    h = _HARNESSES[hidx]
    out = {"paths": 0, "held": 0, "infeasible": 0, "cut": 0, "decisions": 0, "checked": 0,
           "violations": [], "inconclusive": [], "goals": set(), "samples": [], "cuts": {},
           "queries": [], "leftover": [], "stats": None, "funcs": {}, "maxdepth": 0}
    stats = Stats()
    rnd = random.Random(seed ^ hash(tuple(prefixes[0])) & 0xFFFFFFFF)
    work = list(prefixes)
    t0 = time.time()
    while work:
        if out["paths"] >= max_paths or time.time() - t0 > max_time:
            out["leftover"] = work
            break
        prefix = work.pop()
        p = Path(prefix, timeout_ms=h.timeout_ms, stats=stats)
        w = World(p)
        out["paths"] += 1
        status = None
        try:
            h.fn(w)
            status = "held"
        except ViolationFound as v:
            status = "violation"
            out["violations"].append({"harness": h.name, "label": v.label, "witness": v.detail,
                                      "decisions": list(p.decisions)})
        except PathDone:
            status = "held"
        except Infeasible:
            status = "infeasible"
        except Cut as c:
            status = "cut"
            out["cuts"][str(c)] = out["cuts"].get(str(c), 0) + 1
        except (Unsupported, SolverUnknown, EngineBug) as s:
            status = "inconclusive"
            if len(out["inconclusive"]) < 20:
                out["inconclusive"].append({"harness": h.name, "kind": type(s).__name__,
                                            "what": str(s)[:300], "decisions": list(p.decisions),
                                            "trace": _short_tb(s)})
            else:
                out["inconclusive"].append(None)
        except Signal as s:
            status = "inconclusive"
            out["inconclusive"].append({"harness": h.name, "kind": type(s).__name__,
                                        "what": str(s)[:300], "decisions": list(p.decisions)})
        except RecursionError as s:
            status = "inconclusive"
            out["inconclusive"].append({"harness": h.name, "kind": "RecursionError", "what": "",
                                        "decisions": list(p.decisions)})
        except Exception as s:  # harness / engine bug
            status = "inconclusive"
            out["inconclusive"].append({"harness": h.name, "kind": "HarnessException",
                                        "what": f"{type(s).__name__}: {s}"[:300],
                                        "decisions": list(p.decisions), "trace": _short_tb(s)})
        work.extend(p.pending)
        out["decisions"] += len(p.decisions) - len(prefix)
        out["maxdepth"] = max(out["maxdepth"], len(p.decisions))
        if status == "held":
            out["held"] += 1
            out["goals"] |= p.goals
            if p.queries or getattr(w, "nchecks", 0):
                out["checked"] += 1
            if len(out["samples"]) < 2 or rnd.random() < 0.01:
                try:
                    if len(out["samples"]) < 6:
                        out["samples"].append(w.sample())
                except Signal:
                    pass
            if p.queries and (len(out["queries"]) < 2 or rnd.random() < 0.02) \
                    and len(out["queries"]) < 6:
                out["queries"].append(p.queries[-1])
        elif status == "violation":
            out["goals"] |= p.goals
        elif status in ("infeasible", "cut"):
            out[status] += 1
    out["stats"] = stats.as_dict()
    out["funcs"] = dict(I.FUNCS_SEEN)
    out["lines"] = [list(k) for k in I.LINES_SEEN]
    return out


def _short_tb(exc):
    tb = traceback.extract_tb(exc.__traceback__)
    return [f"{os.path.basename(f.filename)}:{f.lineno}:{f.name}" for f in tb[-6:]]


class Result:
    def __init__(self, harness):
        self.harness = harness
        self.paths = self.held = self.infeasible = self.cut = self.decisions = self.checked = 0
        self.violations = []
        self.inconclusive = []
        self.n_inconclusive = 0
        self.goals = set()
        self.samples = []
        self.cuts = {}
        self.queries = []
        self.stats = {"sat": 0, "unsat": 0, "unknown": 0, "solver_time_s": 0.0, "max_query_s": 0.0}
        self.funcs = {}
        self.lines = set()
        self.exhausted = True
        self.wall = 0.0
        self.maxdepth = 0

    def merge(self, o):
        for k in ("paths", "held", "infeasible", "cut", "decisions", "checked"):
            setattr(self, k, getattr(self, k) + o[k])
        self.violations.extend(o["violations"])
        self.n_inconclusive += len(o["inconclusive"])
        self.inconclusive.extend(x for x in o["inconclusive"] if x)
        self.goals |= o["goals"]
        if len(self.samples) < 12:
            self.samples.extend(o["samples"][:3])
        for k, v in o["cuts"].items():
            self.cuts[k] = self.cuts.get(k, 0) + v
        if len(self.queries) < 24:
            self.queries.extend(o["queries"][:2])
        for k in self.stats:
            if k == "max_query_s":
                self.stats[k] = max(self.stats[k], o["stats"].get(k, 0.0))
            else:
                self.stats[k] += o["stats"][k]
        self.funcs.update(o["funcs"])
        for fl, ln in o.get("lines") or ():
            self.lines.add((fl, ln))
        self.maxdepth = max(self.maxdepth, o["maxdepth"])


def explore(hidx, workers, deadline, max_paths, seed, chunk_paths=150, chunk_time=4.0):
    """Re-execution mode: every path re-runs the harness from the start under its decision
    prefix (used where the harness runs real threads, which do not survive fork())."""
    h = _HARNESSES[hidx]
    res = Result(h)
    t0 = time.time()
    ctx = mp.get_context("fork")
    queue = [[]]
    inflight = set()
    with cf.ProcessPoolExecutor(max_workers=workers, mp_context=ctx) as ex:
        first = True
        while queue or inflight:
            over = time.time() > deadline or res.paths > max_paths
            if over and queue:
                res.exhausted = False
                queue.clear()
            while queue and len(inflight) < workers * 2:
                n = 1 if len(queue) < workers * 2 else max(1, min(8, len(queue) // (workers * 2)))
                batch, queue = queue[-n:], queue[:-n]
                lim_p = 6 if first or res.paths < workers * 8 else chunk_paths
                first = False
                inflight.add(ex.submit(_explore_chunk, (hidx, batch, lim_p, chunk_time, seed)))
            if not inflight:
                break
            done, inflight = cf.wait(inflight, return_when=cf.FIRST_COMPLETED)
            for fut in done:
                o = fut.result()
                res.merge(o)
                queue.extend(o["leftover"])
    res.wall = time.time() - t0
    return res


# ------------------------------------------------------------------------------------------------
# fork mode: the process forks at every decision where more than one side is feasible, so no
# prefix is ever re-executed.  A semaphore bounds the number of running processes; when no slot
# is free the parent lends its own slot to the child and waits (depth-first), which bounds the
# number of live processes by (workers x depth).
class Forker:
    def __init__(self, sem, wfd, deadline, tmpdir, counter=None):
        self.counter = counter
        self.sem = sem
        self.wfd = wfd
        self.deadline = deadline
        self.tmpdir = tmpdir
        self.holds = False
        self.child_hooks = []
        self.nsplit = 0

    def split(self, n):
        for k in range(n - 1):
            if time.time() > self.deadline:
                self.finish({"status": "budget"})
            got = self.sem.acquire(False)
            pid = os.fork()
            if pid == 0:
                self.holds = got
                self.nsplit = 0
                for hk in self.child_hooks:
                    hk()
                return k
            self.nsplit += 1
            if not got:
                _, st = os.waitpid(pid, 0)
                if st != 0:
                    self.emit({"status": "crash", "code": st})
        return n - 1

    def emit(self, rec):
        data = (json.dumps(rec, default=str) + "\n").encode()
        if len(data) > 3800:
            fn = os.path.join(self.tmpdir, f"r{os.getpid()}_{time.time_ns()}.json")
            with open(fn, "wb") as fh:
                fh.write(data)
            data = (json.dumps({"file": fn}) + "\n").encode()
        os.write(self.wfd, data)

    def finish(self, rec):
        try:
            self.emit(rec)
            if self.holds:
                self.sem.release()
        finally:
            os._exit(0)


def _run_path(h, w, p):
    """Run the harness on one path object; classify how it ended."""
    rec = {"status": None}
    try:
        h.fn(w)
        rec["status"] = "held"
    except ViolationFound as v:
        rec["status"] = "violation"
        rec["violation"] = {"harness": h.name, "label": v.label, "witness": v.detail,
                            "decisions": list(p.decisions)}
    except PathDone:
        rec["status"] = "held"
    except Infeasible:
        rec["status"] = "infeasible"
    except Cut as c:
        rec["status"] = "cut"
        rec["cut"] = str(c)
    except (Unsupported, SolverUnknown, EngineBug) as s:
        rec["status"] = "inconclusive"
        rec["inc"] = {"harness": h.name, "kind": type(s).__name__, "what": str(s)[:300],
                      "decisions": list(p.decisions)[-40:], "trace": _short_tb(s)}
    except Signal as s:
        rec["status"] = "inconclusive"
        rec["inc"] = {"harness": h.name, "kind": type(s).__name__, "what": str(s)[:300],
                      "decisions": list(p.decisions)[-40:]}
    except RecursionError:
        rec["status"] = "inconclusive"
        rec["inc"] = {"harness": h.name, "kind": "RecursionError", "what": "", "decisions": []}
    except Exception as s:  # harness / engine bug
        rec["status"] = "inconclusive"
        rec["inc"] = {"harness": h.name, "kind": "HarnessException",
                      "what": f"{type(s).__name__}: {s}"[:300], "decisions": [],
                      "trace": _short_tb(s)}
    return rec


def _explorer(h, forker, seed):
    import gc
    gc.disable()
    stats = Stats()
    p = Path((), timeout_ms=h.timeout_ms, stats=stats)
    p.forker = forker
    state = {"funcs": len(I.FUNCS_SEEN), "dec0": 0, "lines": len(I.LINES_SEEN)}

    def on_child():
        stats.reset()
        state["funcs"] = len(I.FUNCS_SEEN)
        state["lines"] = len(I.LINES_SEEN)
        state["dec0"] = len(p.decisions)
    forker.child_hooks.append(on_child)
    w = World(p)
    rec = {"status": "inconclusive"}
    try:
        rec = _run_path(h, w, p)
        rec["stats"] = stats.as_dict()
        rec["dec"] = len(p.decisions) - state["dec0"]
        rec["depth"] = len(p.decisions)
        rec["goals"] = sorted(p.goals)
        rec["checked"] = 1 if (p.queries or getattr(w, "nchecks", 0)) else 0
        rnd = random.Random((seed * 1000003) ^ os.getpid())
        early = False
        if forker.counter is not None and rec["status"] == "held" and getattr(w, "nchecks", 0):
            # the first dozen paths that evaluated an assertion are always written out as samples
            with forker.counter.get_lock():
                forker.counter.value += 1
                early = forker.counter.value <= 12
        if rec["status"] == "held":
            if early or rnd.random() < 0.01:
                try:
                    rec["sample"] = w.sample()
                except Signal:
                    pass
            if p.queries and rnd.random() < 0.01:
                rec["query"] = p.queries[-1]
        if len(I.FUNCS_SEEN) > state["funcs"]:
            rec["funcs"] = dict(list(I.FUNCS_SEEN.items())[state["funcs"]:])
        if len(I.LINES_SEEN) > state["lines"]:
            rec["lines"] = [list(k) for k in list(I.LINES_SEEN)[state["lines"]:]]
    except BaseException as exc:  # never fall back into the caller's stack
        rec = {"status": "inconclusive",
               "inc": {"harness": h.name, "kind": "ExplorerException",
                       "what": f"{type(exc).__name__}: {exc}"[:300], "decisions": []}}
    finally:
        forker.finish(rec)


def explore_fork(hidx, workers, deadline, max_paths, seed):
    import ctypes
    import shutil
    import signal
    h = _HARNESSES[hidx]
    res = Result(h)
    t0 = time.time()
    try:
        ctypes.CDLL(None).prctl(36, 1, 0, 0, 0)  # PR_SET_CHILD_SUBREAPER: orphans come to us
    except Exception:
        pass
    ctx = mp.get_context("fork")
    sem = ctx.Semaphore(max(0, workers - 1))
    counter = ctx.Value("i", 0)
    rfd, wfd = os.pipe()
    tmpdir = tempfile.mkdtemp(prefix="verif_run_")
    sys.stdout.flush()
    sys.stderr.flush()
    pid = os.fork()
    if pid == 0:
        try:
            os.setpgid(0, 0)
            os.close(rfd)
            _explorer(h, Forker(sem, wfd, deadline, tmpdir, counter), seed)
        finally:
            os._exit(1)
    os.close(wfd)
    buf = b""
    crashed = 0
    killed = False

    def handle(rec):
        nonlocal crashed
        if "file" in rec:
            with open(rec["file"]) as fh:
                rec = json.loads(fh.read())
        st = rec.get("status")
        if st == "crash":
            crashed += 1
            res.n_inconclusive += 1
            res.inconclusive.append({"harness": h.name, "kind": "ExplorerCrash",
                                     "what": f"exit status {rec.get('code')}", "decisions": []})
            return
        if st == "budget":
            res.exhausted = False
            return
        res.paths += 1
        if st == "held":
            res.held += 1
        elif st == "infeasible":
            res.infeasible += 1
        elif st == "cut":
            res.cut += 1
            res.cuts[rec["cut"]] = res.cuts.get(rec["cut"], 0) + 1
        elif st == "violation":
            res.violations.append(rec["violation"])
        else:
            res.n_inconclusive += 1
            if len(res.inconclusive) < 40 and rec.get("inc"):
                res.inconclusive.append(rec["inc"])
        res.decisions += rec.get("dec", 0)
        res.checked += rec.get("checked", 0)
        res.maxdepth = max(res.maxdepth, rec.get("depth", 0))
        res.goals |= set(rec.get("goals", ()))
        for k, v in (rec.get("stats") or {}).items():
            if k == "max_query_s":
                res.stats[k] = max(res.stats[k], v)
            else:
                res.stats[k] += v
        if "sample" in rec and len(res.samples) < 12:
            res.samples.append(rec["sample"])
        if "query" in rec and len(res.queries) < 24:
            res.queries.append(rec["query"])
        res.funcs.update(rec.get("funcs") or {})
        for fl, ln in rec.get("lines") or ():
            res.lines.add((fl, ln))

    def reap(block=False):
        nonlocal crashed
        while True:
            try:
                wpid, st = os.waitpid(-1, 0 if block else os.WNOHANG)
            except ChildProcessError:
                return
            if wpid == 0:
                return
            if st != 0 and not killed:
                crashed += 1
                res.n_inconclusive += 1
                if len(res.inconclusive) < 40:
                    res.inconclusive.append({"harness": h.name, "kind": "ExplorerCrash",
                                             "what": f"pid {wpid} exit status {st}",
                                             "decisions": []})
    last_reap = time.time()
    while True:
        chunk = os.read(rfd, 1 << 16)
        if not chunk:
            break
        buf += chunk
        *lines, buf = buf.split(b"\n")
        for ln in lines:
            if ln.strip():
                handle(json.loads(ln))
        if time.time() - last_reap > 0.5:
            reap()
            last_reap = time.time()
        if (res.paths > max_paths or time.time() > deadline + 30) and not killed:
            res.exhausted = False
            killed = True
            try:
                os.killpg(pid, signal.SIGKILL)
            except ProcessLookupError:
                pass
    os.close(rfd)
    reap(block=True)
    shutil.rmtree(tmpdir, ignore_errors=True)
    res.wall = time.time() - t0
    return res


# ------------------------------------------------------------------------------------------------
def replay_violation(h, v):
    """Run the harness natively on the counterexample.  True iff the same violation label is
    raised by the real code under CPython."""
    rec = {"values": v["witness"]["values"], "choices": v["witness"]["choices"]}
    w = ConcreteWorld(rec)
    try:
        h.fn(w)
    except ViolationFound as got:
        # the bracketed message-kind tag is computed from a model and may name another member of
        # the same equivalence class natively; the assertion text is what must agree
        return _untag(got.label) == _untag(v["label"]), got.label, got.detail
    except Signal as s:
        return False, f"signal {type(s).__name__}: {s}", None
    except Exception as exc:
        return False, f"harness exception {type(exc).__name__}: {exc}", \
            "".join(traceback.format_exception(exc))[-2000:]
    return False, "no violation natively", None


def _untag(label):
    import re
    return re.sub(r"\[[^\]]*\]", "[]", label)


def replay_sample(h, s):
    """Replay the model of a *held* path natively: the harness must hold there too."""
    w = ConcreteWorld({"values": s.get("values", {}), "choices": s.get("choices", {})})
    try:
        h.fn(w)
    except ViolationFound as got:
        return False, got.label
    except (PathDone, Infeasible, Cut):
        return True, None
    except Signal as sg:
        return False, f"signal {type(sg).__name__}: {sg}"
    except Exception as exc:
        return False, f"{type(exc).__name__}: {exc}"
    return True, None


def second_solver(queries, tier, seed):
    """Re-decide exported final property queries with the z3 4.8.12 and cvc5 binaries."""
    out = {"checked": 0, "agree": 0, "disagree": 0, "errors": 0, "undecided": 0, "solvers": []}
    if not queries:
        return out
    rnd = random.Random(seed)
    sel = queries if tier == "thorough" else rnd.sample(queries, min(len(queries), 4))
    bins = [("z3-4.8.12", ["/usr/bin/z3", "-T:20"]),
            ("cvc5-1.0.3", ["cvc5", "--tlimit=20000"])]
    out["solvers"] = [b[0] for b in bins]
    with tempfile.TemporaryDirectory(prefix="verif_q_") as td:
        for i, q in enumerate(sel):
            fn = os.path.join(td, f"q{i}.smt2")
            with open(fn, "w") as fh:
                fh.write("(set-logic ALL)\n" + q + "\n")
            for name, cmd in bins:
                try:
                    r = subprocess.run(cmd + [fn], capture_output=True, text=True, timeout=40)
                    txt = (r.stdout + r.stderr).strip()
                except Exception as exc:  # timeout etc.
                    txt = f"error {exc}"
                out["checked"] += 1
                first = txt.splitlines()[0].strip() if txt else ""
                if "(error" in txt or first not in ("sat", "unsat", "unknown", "timeout"):
                    out["errors"] += 1  # the other solver could not read / run the query
                elif first == "unsat":
                    out["agree"] += 1
                elif first == "sat":
                    out["disagree"] += 1
                else:
                    out["undecided"] += 1  # its time limit: says nothing about the verdict
    return out


def load_known():
    fn = os.path.join(VERIF, "known_findings.json")
    if not os.path.exists(fn):
        return []
    with open(fn) as fh:
        return json.load(fh).get("findings", [])


def run_check(prop, harnesses, level_text="", tier=None, seed=None, budget_s=None,
              assumptions=(), outside=(), stubs=(), write_evidence=True):
    tier = tier or os.environ.get("VERIF_TIER", "quick")
    if tier not in ("quick", "thorough"):
        tier = "quick"
    seed = int(seed if seed is not None else os.environ.get("VERIF_SEED", "0") or 0)
    workers = int(os.environ.get("VERIF_WORKERS", "16"))
    budget_s = budget_s or (2400 if tier == "quick" else 14400)
    t0 = time.time()
    _HARNESSES.clear()
    _HARNESSES.extend(harnesses)
    known = [k for k in load_known() if k.get("property") == prop and not k.get("fixed")]
    results = []
    deadline = t0 + budget_s
    for i, h in enumerate(harnesses):
        if tier == "thorough":
            h.timeout_ms = max(h.timeout_ms, 60000)
        if h.setup:
            h.setup()
        mp_ = h.bounds.get("max_paths", 2_000_000)
        if h.bounds.get("mode") == "reexec":
            r = explore(i, workers, deadline, mp_, seed)
        else:
            r = explore_fork(i, workers, deadline, mp_, seed)
        results.append(r)
        print(f"[{prop}] harness {h.name}: paths={r.paths} held={r.held} cut={r.cut} "
              f"infeasible={r.infeasible} violations={len(r.violations)} "
              f"inconclusive={r.n_inconclusive} queries={r.stats} wall={r.wall:.1f}s"
              + ("" if r.exhausted else "  [BUDGET EXHAUSTED]"), flush=True)
    # ---- adjudicate -------------------------------------------------------------------------
    verdict = HELD
    lines = []
    replay_dir = os.path.join(VERIF, "replays")
    new_violations, known_seen, harness_errors = [], {}, []
    validated = 0
    for r in results:
        h = r.harness
        by_label = {}
        for v in r.violations:
            by_label.setdefault(v["label"], []).append(v)
        for label, vs in sorted(by_label.items()):
            vs.sort(key=lambda v: len(json.dumps(v["witness"], default=str)))
            ok, got, detail = False, None, None
            for v in vs[:3]:
                ok, got, detail = replay_violation(h, v)
                if ok:
                    break
            if not ok:
                harness_errors.append({"harness": h.name, "label": label, "native": got,
                                       "witness": vs[0]["witness"], "detail": detail})
                continue
            validated += 1
            sig = f"{h.name}:{label}"
            kf = next((k for k in known if k.get("signature") == sig), None)
            if kf is not None:
                known_seen[sig] = kf
                continue
            os.makedirs(replay_dir, exist_ok=True)
            hid = hashlib.sha1(json.dumps([prop, sig, v["witness"]["values"]], sort_keys=True,
                                          default=str).encode()).hexdigest()[:10]
            path = os.path.join(replay_dir, f"{prop}-{hid}.json")
            with open(path, "w") as fh:
                json.dump({"property": prop, "harness": h.name, "label": label,
                           "signature": sig, "witness": v["witness"],
                           "native_detail": detail, "count": len(vs)}, fh, indent=1, default=str)
            new_violations.append((sig, path, len(vs)))
    # replay models of held paths natively (translator / model validation)
    sample_fail = []
    n_sample_ok = 0
    for r in results:
        for s in r.samples[: (8 if tier == "quick" else 12)]:
            ok, why = replay_sample(r.harness, s)
            if ok:
                n_sample_ok += 1
            else:
                sample_fail.append({"harness": r.harness.name, "why": why, "sample": s})
    all_q = [q for r in results for q in r.queries]
    ss = second_solver(all_q, tier, seed)
    missing_goals = {r.harness.name: sorted(set(r.harness.goals) - r.goals) for r in results
                     if set(r.harness.goals) - r.goals}
    n_inc = sum(r.n_inconclusive for r in results)
    exhausted = all(r.exhausted for r in results)
    odd_cuts = {}
    for r in results:
        for reason, n in r.cuts.items():
            if reason.startswith("harness: ") or any(e in reason for e in r.harness.expected_cuts):
                continue
            odd_cuts[f"{r.harness.name}: {reason}"] = n
    for sig, kf in sorted(known_seen.items()):
        print(f"KNOWN-FINDING: property={prop} {kf.get('what', sig)}")
    if new_violations:
        verdict = VIOLATION
        for sig, path, n in new_violations:
            print(f"VIOLATION property={prop} replay={path}")
            print(f"  signature: {sig}  ({n} path(s))")
    elif harness_errors or sample_fail:
        verdict = HARNESS_ERROR
    elif n_inc or not exhausted or missing_goals or ss["disagree"] or odd_cuts:
        verdict = INCONCLUSIVE
    for he in harness_errors[:5]:
        print(f"HARNESS-ERROR: counterexample did not reproduce natively: {he['harness']}:"
              f"{he['label']} -> {he['native']}")
        print("   witness:", json.dumps(he["witness"], default=str)[:600])
    for sf in sample_fail[:5]:
        print(f"HARNESS-ERROR: model of a held path fails natively: {sf['harness']}: {sf['why']}")
        print("   sample:", json.dumps(sf["sample"], default=str)[:600])
    if verdict == INCONCLUSIVE:
        for k, n in sorted(odd_cuts.items()):
            print(f"INCONCLUSIVE: {n} path(s) left the engine's model (not an expected bound of "
                  f"this harness): {k}")
        if n_inc:
            kinds = {}
            for r in results:
                for x in r.inconclusive:
                    kinds.setdefault(f"{x['kind']}: {x['what']}", []).append(x)
            for k, xs in list(kinds.items())[:12]:
                print(f"INCONCLUSIVE: {len(xs)}+ path(s): {k}  e.g. decisions={xs[0]['decisions']}"
                      f" trace={xs[0].get('trace')}")
        if not exhausted:
            print("INCONCLUSIVE: exploration budget exhausted before the worklist drained")
        if missing_goals:
            print(f"INCONCLUSIVE: reachability goals not reached: {missing_goals}")
        if ss["disagree"]:
            print(f"INCONCLUSIVE: second solver: {ss}")
    wall = time.time() - t0
    ev = evidence(prop, tier, seed, results, validated + n_sample_ok, ss, wall, verdict,
                  known_seen, new_violations, harness_errors, level_text, assumptions, outside,
                  stubs, missing_goals)
    if write_evidence:
        os.makedirs(os.path.join(VERIF, "evidence"), exist_ok=True)
        with open(os.path.join(VERIF, "evidence", f"{prop}.json"), "w") as fh:
            json.dump(ev, fh, indent=1, default=str)
    names = {HELD: "HELD", VIOLATION: "VIOLATION", INCONCLUSIVE: "INCONCLUSIVE",
             HARNESS_ERROR: "HARNESS-ERROR"}
    print(f"[{prop}] verdict={names[verdict]} tier={tier} paths={sum(r.paths for r in results)} "
          f"wall={wall:.1f}s", flush=True)
    return verdict


def evidence(prop, tier, seed, results, validated, ss, wall, verdict, known_seen, new_violations,
             harness_errors, level_text, assumptions, outside, stubs, missing_goals):
    from . import models
    paths = sum(r.paths for r in results)
    held = sum(r.held for r in results)
    samples = []
    for r in results:
        for s in r.samples[:3]:
            samples.append({"harness": r.harness.name, **s})
    funcs = {}
    for r in results:
        funcs.update(r.funcs)
    q = {k: sum(r.stats[k] for r in results) for k in ("sat", "unsat", "unknown")}
    lines = {}
    for r in results:
        for fl, ln in r.lines:
            lines.setdefault(os.path.relpath(fl, os.environ.get("VERIF_REPO", "/repo")), set()).add(ln)
    cov = {
        "states": max(1, sum(r.held + len(r.violations) for r in results)),
        "transitions": max(1, sum(r.decisions for r in results)),
        "traces_validated_against_impl": validated,
        "samples": samples or [{"note": "no held path produced a sample"}],
        "evaluations": paths,
        "distinct_nontrivial": sum(r.checked for r in results),
        "rule": "one evaluation = one feasible path of the real code explored to its end under a "
                "distinct decision list (every branch decided by the solver, infeasible sides "
                "pruned); non-trivial = a held path on which at least one property assertion was "
                "evaluated (discharged by a solver query, or decided structurally on that path); "
                "paths that end before any assertion (e.g. lines rejected by the decoder in a "
                "harness that only looks at accepted lines) are not counted",
        "exhaustive": all(r.exhausted for r in results) and not any(r.n_inconclusive for r in results),
        "explanation": level_text,
        "harnesses": [{
            "name": r.harness.name, "doc": r.harness.doc, "bounds": r.harness.bounds,
            "paths": r.paths, "held": r.held, "cut_outside_bounds": r.cut,
            "infeasible": r.infeasible, "violations": len(r.violations),
            "inconclusive": r.n_inconclusive, "max_depth": r.maxdepth,
            "queries": r.stats, "goals_required": r.harness.goals,
            "goals_reached": sorted(r.goals), "wall_s": round(r.wall, 2),
            "worklist_drained": r.exhausted, "cuts": r.cuts,
        } for r in results],
        "functions_encoded": [{"function": k, "file": v[0], "source_sha1": v[1]}
                              for k, v in sorted(funcs.items())],
        "statements_executed": {k: sorted(v) for k, v in sorted(lines.items())},
        "queries": q,
        "solver": "z3 5.1.0 (python API), per-query timeout "
                  f"{max(r.harness.timeout_ms for r in results)} ms",
        "solver_time_s": round(sum(r.stats["solver_time_s"] for r in results), 2),
        "second_solver": ss,
        "models_and_stubs": list(models.MODELS) + list(stubs),
        "outside_bounds": list(outside),
        "verdict": {0: "HELD", 1: "VIOLATION", 2: "INCONCLUSIVE", 3: "HARNESS-ERROR"}[verdict],
        "known_findings_seen": sorted(known_seen),
        "unreached_goals": missing_goals,
        "harness_errors": harness_errors[:5],
    }
    return {
        "property_id": prop, "tier": tier, "seed": seed, "level": "model_checking",
        "coverage": cov, "assumptions": list(assumptions), "wall_s": round(wall, 2),
        "violations": len(new_violations),
    }


def replay_file(harnesses, path):
    with open(path) as fh:
        rec = json.load(fh)
    h = next((x for x in harnesses if x.name == rec["harness"]), None)
    if h is None:
        print(f"unknown harness {rec['harness']}")
        return HARNESS_ERROR
    if h.setup:
        h.setup()
    ok, got, detail = replay_violation(h, {"witness": rec["witness"], "label": rec["label"]})
    print(f"replay {path}: expected {rec['label']!r}, native run gave {got!r}")
    if detail:
        print(json.dumps(detail, default=str)[:3000])
    if ok:
        print(f"VIOLATION property={rec['property']} replay={path}")
        return VIOLATION
    return HELD
