"""Debug helper: run one harness sequentially (re-execution mode) for N paths and report where
the forks come from.  usage: dbgseq.py <module> <harness-name> <N> [tier]"""
import collections
import importlib
import logging
import os
import sys
import time
import traceback

sys.path.insert(0, os.environ.get("VERIF_REPO", "/repo"))
sys.path.insert(0, os.path.dirname(os.path.dirname(os.path.abspath(__file__))))
sys.setrecursionlimit(20000)
logging.disable(logging.CRITICAL)

from symex import interp as I  # noqa: E402
from symex.core import Path, Signal, Stats  # noqa: E402
from symex.world import ViolationFound, World  # noqa: E402


def main():
    mod = importlib.import_module(f"harness.{sys.argv[1]}")
    tier = sys.argv[4] if len(sys.argv) > 4 else "quick"
    spec = mod.build(tier)
    h = next(x for x in spec["harnesses"] if x.name == sys.argv[2])
    if h.setup:
        h.setup()
    n_max = int(sys.argv[3])
    forks = collections.Counter()
    stack = []
    orig_exec = I.Interp.exec

    def ex(self, s, f):
        stack.append((getattr(f.fn, "__qualname__", "?"), s.lineno))
        try:
            return orig_exec(self, s, f)
        finally:
            stack.pop()
    I.Interp.exec = ex
    orig_branch = Path.branch
    orig_choose = Path.choose

    def br(self, cond):
        n = len(self.pending)
        r = orig_branch(self, cond)
        if len(self.pending) > n:
            tb = traceback.extract_stack(limit=6)
            where = [f"{os.path.basename(x.filename)}:{x.lineno}" for x in tb[:-1]]
            forks[(stack[-1] if stack else "harness", tuple(where[-3:]))] += 1
        return r

    def ch(self, n, label=None):
        k = len(self.pending)
        r = orig_choose(self, n, label)
        if len(self.pending) > k:
            forks[("choose", label)] += len(self.pending) - k
        return r
    Path.branch = br
    Path.choose = ch
    work = [[]]
    n = 0
    st = Stats()
    res = collections.Counter()
    t0 = time.time()
    while work and n < n_max:
        pre = work.pop()
        p = Path(pre, stats=st, timeout_ms=h.timeout_ms)
        n += 1
        w = World(p)
        try:
            h.fn(w)
            r = "held"
        except ViolationFound as v:
            r = "V " + v.label
        except Signal as s:
            r = type(s).__name__ + " " + str(s)[:120]
            if os.environ.get("DBG_TB"):
                traceback.print_exc()
        work.extend(p.pending)
        res[r] += 1
    print(f"paths={n} pending={len(work)} wall={time.time() - t0:.1f}s {st.as_dict()}")
    for k, v in res.most_common():
        print(v, k)
    print("-- fork sites")
    for k, v in forks.most_common(30):
        print(v, k)


main()
