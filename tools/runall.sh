#!/bin/sh
# run every check of a tier on the current tree, one line per check
cd "$(dirname "$0")/.."
TIER=${1:-quick}
if [ -z "$VERIF_REPO" ] && [ -n "$(git -C /repo status --porcelain -- mysensors)" ]; then
  echo "refusing: /repo has local modifications (a seeded change applied?)"; exit 9
fi
OUT=${RUNALL_OUT:-/tmp}
mkdir -p "$OUT"
for p in ${RUNALL_CHECKS:-C01 C02 C03 C04 C05 C06 C07 C08 C09 C10 C11 C12 C13 C14 C15 C16 C17 C18 C19 C20}; do
  s=$(date +%s)
  ./check $p --tier $TIER > $OUT/runall_$p.out 2>&1
  rc=$?
  e=$(date +%s)
  echo "$p exit=$rc $((e-s))s $(grep -c '^VIOLATION' $OUT/runall_$p.out) violations, $(grep -c '^KNOWN-FINDING' $OUT/runall_$p.out) known; $(tail -1 $OUT/runall_$p.out)"
done
