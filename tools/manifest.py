"""Regenerate MANIFEST.json from the table below (keeps it valid at all times)."""
import json
import os

HERE = os.path.dirname(os.path.dirname(os.path.abspath(__file__)))
TECH = ("symbolic execution of the real Python source (own AST interpreter over z3, QF_LIA/LRA), "
        "exhaustive solver-pruned path enumeration within stated bounds, native replay of every "
        "counterexample, second-solver (z3 4.8.12 / cvc5) re-check of sampled final queries")

CLAIMED = {
    "C01": dict(
        text="inductive one-step bounded symbolic model checking of the real pump "
             "(Gateway.logic, handlers, job drain, Transport.send / MQTTTransport.send) from "
             "arbitrary pre-states in the state invariant, with unbounded header integers and "
             "symbolic payload / controller text; every feasible path explored, 'no exception "
             "escapes' and 'rejected means no effect' decided by z3 on each",
        note="trusted: AST interpreter + library models (validated by native replay of path "
             "models); Inv instantiated on the listed state shapes; payload lengths bounded; "
             "logging/clock stubbed; user callbacks raise only Exception"),
    "C02": dict(
        text="bounded symbolic model checking of the real Message.decode/encode/copy source: "
             "every feasible path for unbounded integer fields and full-Unicode code points "
             "within the stated length bounds; each assertion discharged by z3",
        note="trusted: AST interpreter and the int()/str() models (validated by H2d and native "
             "replay of path models); payload/field length bounds as in the evidence"),
    "C03": dict(
        text="symbolic execution of the real Message.validate (real per-version tables, "
             "voluptuous leaf validators interpreted from source) against an independent "
             "serial-API reference predicate executed by the same interpreter; equivalence "
             "accepted<=>valid decided on every feasible path for unbounded header integers",
        note="trusted: interpreter, int()/float() models (shared by implementation and "
             "reference), the reference transcription in verifspec/serial_api.py; version "
             "payloads only on the listed grid (AwesomeVersion not encodable)"),
    "C06": dict(
        text="symbolic execution of the id allocator (handle_id_request/add_sensor/_get_next_id) "
             "from arbitrary constellations of known node ids (solver variables in 0..255) and of "
             "an id request / stop / restart / id request cycle on the abstract file system",
        note="trusted: interpreter, abstract FS + serialiser (symex/fsenv.py); at most 2 (quick) "
             "/ 3 known nodes; nodes are never removed (no API does)"),
    "C12": dict(
        text="bounded symbolic model checking of the real save_sensors/_perform_file_action/"
             "safe_load_sensors on an abstract file system: crash point, failing operation, prior "
             "on-disk configuration, loss of unsynced data and format are choice variables "
             "explored exhaustively; state contents are solver terms",
        note="assumes POSIX rename atomicity and operation-ordered directory entries; serialiser "
             "writes in two chunks; decoder raises per the tabulated contract; one fault per save"),
    "C13": dict(
        text="symbolic execution of the real safe_load_sensors/_load_sensors with main and backup "
             "independently missing/good/empty/truncated/zero-filled and the decoder raising a "
             "symbolic member of the natively tabulated json/pickle exception contract",
        note="decoder contract tabulated on all truncations and zero-fills of three real saved "
             "states per format (not proved complete); byte-level decoding is C code, not encoded"),
    "C14": dict(
        text="inductive step for the invariant 'need_save or file == projection' over every "
             "accepted message kind from arbitrary pre-states, plus stop()/save tick as steps on "
             "the abstract file system (threaded and asyncio); induction covers every history",
        note="abstract serialiser (file content = persisted projection at dump time); pre-states "
             "in Inv on the listed shapes; save racing with a message is C15's subject"),
    "C15": dict(
        text="symbolic execution of the real schedule_save closures (threading.Timer chain and "
             "asyncio save loop) over three ticks with a transient fault at a symbolic tick and "
             "file operation, or a serialiser failure, on the abstract file system",
        note="Timer / event loop are recording fakes (synchronous await model); concurrent "
             "mutation is modelled as RuntimeError from the serialiser; three ticks"),
    "C09": dict(
        text="symbolic execution of make_update/prepare_fw/respond_fw_config/respond_fw with the "
             "firmware image as a z3 array of symbolic length 1..32768 and unconstrained content "
             "(symbolic indices, no enumeration of lengths; the pad loop forks on length mod 128), "
             "plus a bit-vector proof that crcmod's table-driven update step equals eight "
             "bit-steps of CRC-16/MODBUS for arbitrary state and byte (inductive: every length), "
             "plus load_fw with the installed intelhex parser interpreted from source on a hex "
             "file whose record structure is enumerated (1..2 records + EOF; thorough 1..3) and "
             "whose every hex digit is symbolic, against the format's definition",
        note="compute_crc is an uninterpreted function in the image harness, its definition is "
             "proved in the crc-kernel harness; int(len/16) exact below 2**53; crcmod C kernel vs "
             "Python twin on samples; Intel-HEX: data addresses < 16, base words < 2, record "
             "lengths <= 2, overlapping records and data on both sides of a 64 KiB base change "
             "outside the claim; open() is a stub, the parser is the installed package's source",
        technique="symbolic execution of the Python source with z3 arrays + bit-vectors (own AST "
                  "interpreter), exhaustive path enumeration, native replay"),
    "C11": dict(
        text="symbolic execution of the repository's real serialisation hooks (JSON encoder "
             "default(), decoder object_hook, __getstate__/__setstate__, property setters) inside "
             "an abstract serialiser that follows the documented json/pickle data model, on states "
             "with symbolic ids, keys and text; equality of projections decided by z3",
        note="json/pickle themselves (C code) are replaced by the abstract serialiser in "
             "harness/c11.py; byte-level formats, floats and hand-edited files are outside"),
    "C17": dict(
        text="symbolic execution of parse_message_to_mqtt / parse_mqtt_to_message / "
             "MQTTTransport.send/recv/handle_subscription / init_topics over symbolic prefixes, "
             "in-range headers, payloads, topics and QoS; the acceptance rule and the round trip "
             "are decided on every feasible path",
        note="prefix / level alphabets [a-z0-9-] and lengths bounded as listed in the evidence; "
             "broker wildcard semantics outside; pub/sub callbacks are recording fakes"),
    "C18": dict(
        text="symbolic execution of the real cooperative constructor chains of all six gateway "
             "classes for every subset of documented keyword options (scalar option values are "
             "solver terms), and exhaustive exploration of the version-string grid through the "
             "real safe_is_version/get_const/is_sensor selection code against the numeric floor",
        note="AwesomeVersion runs natively on the concrete grid strings (regex-driven, not "
             "encodable): exact on the grid only; connecting is never reached",
        technique="symbolic execution of the Python source (own AST interpreter over z3) for the "
                  "constructor matrix; exhaustive enumeration of the version grid through the "
                  "interpreted selection code; native replay"),
    "C16": dict(
        text="exhaustive exploration of thread schedules at statement granularity up to a "
             "pre-emption bound over the real Transport.send / disconnect / connection_lost / "
             "connection_made / add_job / run_job source (modelled threads + baton, schedules are "
             "path decisions); the solver decides the assertions over the symbolic write-failure "
             "flag; counterexample schedules are replayed on the real code under sys.settrace",
        note="granularity = statement boundaries of repository code (C-level operations and "
             "attribute loads inside one statement are atomic); pre-emption budget 2 (quick) / 3; "
             "the send lock is modelled by a scheduler lock; connections are recording fakes",
        technique="bounded schedule enumeration by symbolic execution of the Python source with "
                  "modelled threads (own AST interpreter over z3), native replay under settrace"),
    "C20": dict(
        text="symbolic execution of check_connection/_handle_i_version on a symbolic clock "
             "(linear real arithmetic over event instants, reconnect timeout R and polling period "
             "eps; no-op polls abstracted), of the three protocol classes' connection callbacks, "
             "of stop() and of the threaded connect loops with scripted device factories",
        note="event instants satisfy 0 < 4*eps < R and polls come at least every eps; pyserial "
             "ReaderThread internals, serial_asyncio, the real asyncio loop, real sockets, the "
             "asyncio connect loops and TCPTransport.run are outside; one known finding (watchdog "
             "slack) is listed in known_findings.json"),
    "C04": dict(
        text="inductive one-step equivalence of the real handlers with an independent reference "
             "transition function (node/child/value tree, attributes with fallbacks, desired "
             "state, hold queue, OTA stores) plus the exact-callback rule (count, arguments, state "
             "seen inside the callback, raising callback), from arbitrary pre-states in Inv with "
             "unbounded header integers; equality decided by z3 on every feasible path",
        note="reference semantics in verifspec/refmodel.py (DESIGN Appendix C); Inv instantiated "
             "on the listed shapes; payload length bounded; rejected lines are C01's subject"),
    "C05": dict(
        text="inductive one-step comparison of the ordered emissions of the real pump with the "
             "replies prescribed by the reference model (value request, config, local time via an "
             "uninterpreted timegm(localtime()), id response, discover, presentation request, "
             "reboot, wake-up burst, OTA); every emitted line is proved canonical, valid for the "
             "configured version (real validator and independent serial-API predicate) and "
             "addressed to the inbound node or broadcast",
        note="the ack flag of replies is not prescribed and not compared; states in Inv on the "
             "listed shapes; controller values restricted to wire-carriable text"),
    "C07": dict(
        text="inductive one-step proof that no non-stream command leaves the gateway for a node "
             "that was smart-sleeping before the step unless the inbound message is that node's "
             "wake-up announcement, that nothing is parked for a node that is awake, and that "
             "controller calls (set_child_value, update_fw) never emit to a sleeping node; two "
             "nodes with symbolic ids cover every arrival order as a sequence of such steps",
        note="versions 2.0-2.2; shapes with one sleeping and one awake node; Inv B5 checked on "
             "every post-state"),
    "C08": dict(
        text="inductive one-step equivalence with the reference hold/flush rules (wake-up burst = "
             "withheld lines in order + one set per reported and pending value type as a multiset, "
             "desired entries cleared exactly by the matching report, requests answered from the "
             "desired state) plus a call-time harness: set_child_value on a sleeping node with "
             "arbitrary text and value-type spellings is refused or is delivered at the next two "
             "wake-ups",
        note="node version equal to / older than the gateway's; values up to 2 code points; "
             "versions 2.0-2.2"),
    "C10": dict(
        text="inductive one-step equivalence of respond_fw_config/respond_fw/_get_fw with the "
             "reference session automaton (requested -> offered -> fetching) for symbolic hex "
             "payloads (well-formed, truncated, odd, non-hex), node ids, firmware ids and stores, "
             "and of every update_fw call form (single id, list, unknown id, missing firmware, "
             "non-integer type, same firmware) with its prescribed effect on the stores and the "
             "reboot flags, plus bounded OTA histories (4-5 events of update call / config request "
             "/ block request / set / node presentation on two nodes) through the public API with "
             "the automaton run alongside",
        note="a block request for a firmware other than the scheduled one and a block index beyond "
             "the image are not prescribed by the statement: for those inputs only 'no exception' "
             "is checked; load_fw stubbed (Intel-HEX not encoded); two nodes, one image"),
    "C19": dict(
        text="symbolic execution of the real data_received / pyserial Packetizer framing over a "
             "symbolic byte stream cut at symbolic positions (lines delivered == split of the whole "
             "stream at LF, tail stays buffered), and a two-line comparison of the threaded gateway "
             "(both lines queued before the pump runs vs one after the other) with the asyncio "
             "gateway on state and ordered emissions from arbitrary pre-states",
        note="UTF-8 decoding kept as a function of the line's bytes; second line restricted to the "
             "kinds with a direct reply; one known finding (emission order for lines arriving in "
             "one chunk) is listed in known_findings.json"),
}

NOT_YET = "check not landed yet (build in progress); will be decided by the same solver-based engine"


def main():
    props = [json.loads(line)["id"] for line in open(os.path.join(HERE, "properties.jsonl"))]
    checks = []
    for pid in props:
        if pid not in CLAIMED:
            continue
        c = CLAIMED[pid]
        checks.append({
            "property_id": pid,
            "quick_cmd": f"./check {pid} --tier quick",
            "thorough_cmd": f"./check {pid} --tier thorough",
            "evidence_file": f"evidence/{pid}.json",
            "replay_cmd_template": f"./check {pid} --replay {{path}}",
            "engine": "symex",
            "level_claimed": {"category": "model_checking", "text": c["text"],
                              "design_ref": f"DESIGN.md §5 {pid}"},
            "level_note": c["note"],
            "technique": c.get("technique", TECH),
        })
    na = [{"property_id": p, "reason": NA.get(p, NOT_YET)} for p in props if p not in CLAIMED]
    manifest = {
        "version": 1,
        "setup_cmd": "./setup.sh",
        "hooks": {
            "guard": "PYMYSENSORS_VERIF",
            "enable": "no source hooks: the interpreter observes the real code from outside; "
                      "checks export PYMYSENSORS_VERIF=1 for uniformity",
            "baseline_off_cmd": "cd /repo && /venv/bin/python -m pytest -ra -q -p no:cacheprovider "
                                "--timeout=900 --continue-on-collection-errors",
            "source_commits": [],
            "add_only": True,
        },
        "engines": [{
            "name": "symex", "path": "symex/", "serves_properties": sorted(CLAIMED),
            "kind_free_text": "AST-driven symbolic executor of the real Python source over z3 "
                              "(fork-per-decision exploration, exhaustive worklist, native replay)",
        }],
        "checks": checks,
        "not_applicable": na,
        "notes": "exit codes: 0 held, 1 violation (VIOLATION line), 2 inconclusive, 3 harness "
                 "error. Genuine defects repaired in /repo by 'fix:' commits are listed in "
                 "known_findings.json. See DESIGN.md.",
    }
    with open(os.path.join(HERE, "MANIFEST.json"), "w") as fh:
        json.dump(manifest, fh, indent=1)
    print(f"{len(checks)} checks claimed, {len(na)} not applicable / pending")


NA = {}

if __name__ == "__main__":
    main()
