"""Confirm a seeded change produced in a scratch worktree and keep it under /verif/seeded/.

usage: ingest_seed.py <worktree> <subdir-under-_seed> <seed-id> [author note]
Confirms, in the scratch worktree only (never in /repo): the patch applies to the pristine tree,
the 730 tests pass with it, demo.py exits 1 with it and 0 without it.  Only then copies
patch.diff, demo.py and meta.json (with my confirmation added) to /verif/seeded/<seed-id>/."""
import json
import os
import shutil
import subprocess
import sys

HERE = os.path.dirname(os.path.dirname(os.path.abspath(__file__)))
PY = "/venv/bin/python"


def sh(cmd, cwd, env=None):
    e = dict(os.environ)
    e.update(env or {})
    return subprocess.run(cmd, cwd=cwd, env=e, capture_output=True, text=True)


def main():
    wt, sub, sid = sys.argv[1:4]
    note = sys.argv[4] if len(sys.argv) > 4 else ""
    src = os.path.join(wt, "_seed", sub)
    patch = os.path.join(src, "patch.diff")
    demo = os.path.join(src, "demo.py")
    env = {"PYTHONPATH": wt}
    st = sh(["git", "status", "--porcelain", "--", "mysensors", "tests"], wt).stdout.strip()
    if st:
        sys.exit(f"{sid}: worktree not pristine:\n{st}")
    r = sh([PY, demo], wt, env)
    if r.returncode != 0:
        sys.exit(f"{sid}: demo fails on the pristine tree (exit {r.returncode}): {r.stderr[-300:]}")
    r = sh(["git", "apply", patch], wt)
    if r.returncode:
        sys.exit(f"{sid}: patch does not apply: {r.stderr[:300]}")
    try:
        files = sh(["git", "diff", "--name-only"], wt).stdout.split()
        if any(not f.startswith("mysensors/") for f in files):
            sys.exit(f"{sid}: patch touches files outside mysensors/: {files}")
        t = sh([PY, "-m", "pytest", "-q", "-p", "no:cacheprovider", "-x"], wt, env)
        tail = t.stdout.strip().splitlines()[-1] if t.stdout.strip() else t.stderr[-200:]
        if t.returncode != 0 or "730 passed" not in tail:
            sys.exit(f"{sid}: test suite does not pass with the change: {tail}")
        d = sh([PY, demo], wt, env)
        if d.returncode != 1:
            sys.exit(f"{sid}: demo exits {d.returncode} with the change (expected 1): "
                     f"{d.stderr[-300:]}")
        why = (d.stderr.strip().splitlines() or [""])[-1][:300]
    finally:
        sh(["git", "checkout", "--", "."], wt)
    dst = os.path.join(HERE, "seeded", sid)
    os.makedirs(dst, exist_ok=True)
    shutil.copy(patch, dst)
    shutil.copy(demo, dst)
    meta = {}
    try:
        with open(os.path.join(src, "meta.json")) as fh:
            meta = json.load(fh)
    except (OSError, ValueError) as exc:
        meta = {"meta_unreadable": str(exc)}
    meta["author"] = ("independent sub-agent given only the property text and a scratch worktree"
                      + (f" ({note})" if note else ""))
    meta["confirmed_by_me"] = (f"tools/ingest_seed.py in the scratch worktree: pytest {tail} with "
                               f"the change; demo.py exits 1 with the change ({why}) and 0 on the "
                               "pristine tree")
    with open(os.path.join(dst, "meta.json"), "w") as fh:
        json.dump(meta, fh, indent=1)
    print(f"{sid}: kept ({', '.join(files)}): {why[:160]}")


if __name__ == "__main__":
    main()
