"""Union of the repository statements executed symbolically by the checks (from the evidence
files' coverage.statements_executed) against all statements of /repo/mysensors: prints what no
check ever executed - a change there cannot be noticed by any check.
usage: linecov.py [evidence-dir]"""
import ast
import glob
import json
import os
import sys

REPO = os.environ.get("VERIF_REPO", "/repo")
HERE = os.path.dirname(os.path.dirname(os.path.abspath(__file__)))


def statements(path):
    """Line numbers of the statements inside function bodies (docstrings excluded)."""
    tree = ast.parse(open(path).read())
    out = set()
    for fn in ast.walk(tree):
        if not isinstance(fn, (ast.FunctionDef, ast.AsyncFunctionDef)):
            continue
        for node in ast.walk(fn):
            if isinstance(node, ast.stmt) and node is not fn and not isinstance(
                    node, (ast.FunctionDef, ast.AsyncFunctionDef, ast.ClassDef)):
                if isinstance(node, ast.Expr) and isinstance(node.value, ast.Constant):
                    continue
                out.add(node.lineno)
    return out


def main():
    evdir = sys.argv[1] if len(sys.argv) > 1 else os.path.join(HERE, "evidence")
    seen = {}
    for f in sorted(glob.glob(os.path.join(evdir, "C*.json"))):
        cov = json.load(open(f))["coverage"].get("statements_executed", {})
        for k, v in cov.items():
            seen.setdefault(k, set()).update(v)
    total = missed = 0
    for path in sorted(glob.glob(os.path.join(REPO, "mysensors", "*.py"))):
        rel = os.path.relpath(path, REPO)
        if os.path.basename(path).startswith("const_") or rel.endswith("version.py"):
            continue
        st = statements(path)
        miss = sorted(st - seen.get(rel, set()))
        total += len(st)
        missed += len(miss)
        if miss:
            src = open(path).read().splitlines()
            print(f"== {rel}: {len(miss)} of {len(st)} statements never executed")
            for ln in miss:
                print(f"   {ln:4d}  {src[ln - 1].strip()[:100]}")
    print(f"total: {total - missed} of {total} statements executed by at least one check")


main()
