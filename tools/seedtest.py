"""Run checks against the seeded defects in /verif/seeded/<id>/patch.diff.

usage: seedtest.py [seed-id ...] [--checks C01,C05 | --own] [--tier quick] [--worktree DIR]
For each seed: git -C /repo apply <patch>; run the checks; git -C /repo checkout -- . ;
prints one line per (seed, check): exit code and the violation signatures reported.
Never leaves the patch applied (also on error).
With --worktree DIR the patch is applied in that scratch worktree of /repo instead (created with
`git -C /repo worktree add --detach DIR HEAD`, outside /repo and /verif) and the checks run with
VERIF_REPO=DIR, so several seeds can be tried side by side without touching /repo."""
import json
import os
import subprocess
import sys
import time

HERE = os.path.dirname(os.path.dirname(os.path.abspath(__file__)))
DEFAULT = {  # which checks are expected to be relevant for a seed of property X
    "C01": ["C01", "C08"], "C04": ["C04", "C14"], "C05": ["C05", "C08", "C01"], "C07": ["C07"],
    "C08": ["C08"], "C09": ["C09", "C10"], "C10": ["C10"], "C12": ["C12"], "C02": ["C02"],
    "C03": ["C03"], "C06": ["C06", "C14"], "C11": ["C11"], "C13": ["C13"], "C14": ["C14", "C06"],
    "C15": ["C15"], "C16": ["C16"], "C17": ["C17"], "C18": ["C18"], "C19": ["C19"], "C20": ["C20"],
}


def main():
    args = sys.argv[1:]
    checks = None
    repo = "/repo"
    tier = "quick"
    seeds = []
    i = 0
    while i < len(args):
        if args[i] == "--checks":
            checks = args[i + 1].split(",")
            i += 2
        elif args[i] == "--own":
            checks = "own"
            i += 1
        elif args[i] == "--tier":
            tier = args[i + 1]
            i += 2
        elif args[i] == "--worktree":
            repo = args[i + 1]
            i += 2
        else:
            seeds.append(args[i])
            i += 1
    if not seeds:
        seeds = sorted(os.listdir(os.path.join(HERE, "seeded")))
    st = subprocess.run(["git", "-C", repo, "status", "--porcelain", "--", "mysensors"],
                        capture_output=True, text=True).stdout.strip()
    if st:
        sys.exit(f"refusing: {repo} has local modifications:\n" + st)
    env = dict(os.environ)
    if repo != "/repo":
        env["VERIF_REPO"] = repo
    results = {}
    for seed in seeds:
        patch = os.path.join(HERE, "seeded", seed, "patch.diff")
        prop = seed.split("-")[0]
        todo = [prop] if checks == "own" else (checks or DEFAULT.get(prop, [prop]))
        r = subprocess.run(["git", "-C", repo, "apply", patch], capture_output=True, text=True)
        if r.returncode:
            print(f"{seed}: patch does not apply: {r.stderr.strip()[:200]}")
            continue
        try:
            for chk in todo:
                t0 = time.time()
                p = subprocess.run([os.path.join(HERE, "check"), chk, "--tier", tier],
                                   capture_output=True, text=True, cwd=HERE, env=env)
                sigs = [ln.strip()[len("signature: "):] for ln in p.stdout.splitlines()
                        if ln.strip().startswith("signature:")]
                other = [ln for ln in p.stdout.splitlines()
                         if ln.startswith(("INCONCLUSIVE", "HARNESS-ERROR"))]
                results[(seed, chk)] = (p.returncode, sigs, other)
                print(f"{seed} {chk}: exit={p.returncode} {time.time() - t0:.0f}s "
                      f"violations={len(sigs)}", flush=True)
                for s in sigs[:4]:
                    print("     ", s[:200])
                for s in other[:3]:
                    print("     ", s[:260])
        finally:
            subprocess.run(["git", "-C", repo, "checkout", "--", "."], check=True)
    out = {f"{k[0]}|{k[1]}": {"exit": v[0], "signatures": v[1], "other": v[2]}
           for k, v in results.items()}
    with open(f"/tmp/seedtest_results{'_' + os.path.basename(repo) if repo != '/repo' else ''}.json",
              "w") as fh:
        json.dump(out, fh, indent=1)


if __name__ == "__main__":
    main()
