"""Reference semantics of one gateway step (C04, C05, C07, C08, C10), written from the property
statements and the MySensors serial API (DESIGN Appendix C) - not from the implementation.

Plain Python over the engine's value kinds; executed by the same interpreter as the repository
code, on a projection of the gateway state:

  nodes[nid] = {type, sketch_name, sketch_version, battery, version, heartbeat, reboot,
                children{cid: {type, desc, values{vt: text}}},
                desired{cid: {vt: text|None}},  queue[lines]}
  ota = {firmware{(type, ver): {blocks, crc, data}}, requested{nid: id}, unstarted{...},
         started{...}}

ref_step mutates the projection and returns (callback rule, [expected emissions]).
An expected emission is a tuple (node, child, command, sub, payload); the ack flag of a reply is
not prescribed by the properties and is not part of the tuple.
"""
import binascii
import struct

from mysensors.validation import safe_is_version  # the documented sanitiser (C18 checks it)

ONE, ZERO, LE1 = "exactly one", "none", "at most one"


def v20(version):
    return version in ("2.0", "2.1", "2.2")


def wakeup_sub(version):
    if version == "2.2":
        return 32
    return 22


def sleeping(node):
    return len(node["desired"]) > 0


def route(state, emits, cmd):
    """A command leaves the gateway now unless it is addressed to a sleeping node (stream
    responses always leave); presentation-type 'replies' are never sent."""
    node, child, command, sub, payload = cmd
    if command == 0:
        return
    nodes = state["nodes"]
    if node in nodes and command != 4 and sleeping(nodes[node]):
        nodes[node]["queue"].append(cmd)
        return
    emits.append(cmd)


def ask_presentation(version, state, emits, node):
    if v20(version):
        route(state, emits, (node, 255, 3, 19, ""))


def known(version, state, emits, node, child=None):
    nodes = state["nodes"]
    ok = node in nodes
    if ok and child is not None:
        ok = child in nodes[node]["children"]
    if not ok:
        ask_presentation(version, state, emits, node)
    return ok


def new_node():
    return {"type": None, "sketch_name": None, "sketch_version": None, "battery": 0,
            "version": "1.4", "heartbeat": 0, "reboot": False, "children": {}, "desired": {},
            "queue": []}


def wake_up(state, emits, node_id):
    """Burst after a wake-up announcement: withheld lines oldest first, then one set per value
    type the node has reported and the controller has since asked to change."""
    node = state["nodes"][node_id]
    for cid in node["children"]:
        if cid not in node["desired"]:
            node["desired"][cid] = {}
    while len(node["queue"]) > 0:
        emits.append(node["queue"].pop(0))
    for cid in node["children"]:
        child = node["children"][cid]
        want = node["desired"].get(cid)
        if not want:
            continue
        for vt in child["values"]:
            value = want.get(vt)
            if value is None:
                continue
            emits.append((node_id, cid, 1, vt, value))


def next_id(nodes):
    if len(nodes) > 0:
        candidate = max(nodes.keys()) + 1
    else:
        candidate = 1
    if candidate <= 254:
        return candidate
    return None


def hex_words(text, words):
    """Little-endian 16-bit words of a hex string, or None if it is not exactly that."""
    try:
        return list(struct.unpack(f"<{words}H", binascii.unhexlify(text)))
    except (ValueError, struct.error):
        return None


def to_hex(*words):
    return binascii.hexlify(struct.pack(f"<{len(words)}H", *words)).decode("utf-8")


def fw_response(kind, fw_type, fw_ver, fware, block):
    if kind == "config":
        return to_hex(fw_type, fw_ver, fware["blocks"], fware["crc"])
    data = fware["data"][block * 16:block * 16 + 16]
    return to_hex(fw_type, fw_ver, block) + binascii.hexlify(data).decode("utf-8")


def ota_step(state, emits, node, sub, payload):
    """Firmware session automaton: requested -> unstarted(offered) -> started(fetching)."""
    ota = state["ota"]
    if sub == 0:
        req = hex_words(payload, 5)
        if req is None:
            return
        fw_id = ota["requested"].pop(node, None)
        if fw_id is None:
            fw_id = ota["unstarted"].pop(node, None)
        if fw_id is None:
            return
        ota["unstarted"][node] = fw_id
        fware = ota["firmware"].get(fw_id)
        if fware is None:
            return
        emits.append((node, 255, 4, 1, fw_response("config", fw_id[0], fw_id[1], fware, None)))
    elif sub == 2:
        req = hex_words(payload, 3)
        if req is None:
            return
        fw_id = ota["unstarted"].pop(node, None)
        if fw_id is None:
            fw_id = ota["started"].pop(node, None)
        if fw_id is None:
            return
        ota["started"][node] = fw_id
        fware = ota["firmware"].get((req[0], req[1]))
        if fware is None:
            return
        emits.append((node, 255, 4, 3, fw_response("block", req[0], req[1], fware, req[2])))


def ref_step(version, state, msg, metric, local_time):
    """One accepted inbound message.  Returns (callback rule, expected emissions)."""
    node, child, command, ack, sub, payload = msg
    nodes = state["nodes"]
    emits = []
    if command == 0:
        if child == 255:
            if node not in nodes:
                nodes[node] = new_node()
            nodes[node]["type"] = sub
            nodes[node]["version"] = safe_is_version(payload)
            nodes[node]["reboot"] = False
            return ONE, emits
        if not known(version, state, emits, node):
            return ZERO, emits
        children = nodes[node]["children"]
        if child in children:
            return ZERO, emits
        children[child] = {"type": sub, "desc": payload, "values": {}}
        return ONE, emits
    if command == 1:
        if not known(version, state, emits, node, child):
            return ZERO, emits
        me = nodes[node]
        me["children"][child]["values"][sub] = payload
        if child in me["desired"]:
            me["desired"][child][sub] = None
        if me["reboot"]:
            route(state, emits, (node, 255, 3, 13, ""))
        return ONE, emits
    if command == 2:
        if not known(version, state, emits, node, child):
            return ZERO, emits
        me = nodes[node]
        value = None
        if sleeping(me) and child in me["desired"]:
            value = me["desired"][child].get(sub)
        if value is None:
            value = me["children"][child]["values"].get(sub)
        if value is not None:
            route(state, emits, (node, child, 1, sub, value))
        return ZERO, emits
    if command == 3:
        return internal(version, state, emits, msg, metric, local_time)
    # stream
    if not known(version, state, emits, node):
        return ZERO, emits
    ota_step(state, emits, node, sub, payload)
    return LE1, emits


def internal(version, state, emits, msg, metric, local_time):
    node, child, command, ack, sub, payload = msg
    nodes = state["nodes"]
    if sub == 0:
        if not known(version, state, emits, node):
            return ZERO, emits
        nodes[node]["battery"] = int(payload)
        return ONE, emits
    if sub == 1:
        route(state, emits, (node, child, 3, 1, local_time))
        return LE1, emits
    if sub == 3:
        new_id = next_id(nodes)
        if new_id is None:
            return ZERO, emits
        nodes[new_id] = new_node()
        route(state, emits, (node, child, 3, 4, new_id))
        return ONE, emits
    if sub == 6:
        if metric:
            route(state, emits, (node, child, 3, 6, "M"))
        else:
            route(state, emits, (node, child, 3, 6, "I"))
        return LE1, emits
    if sub == 9:
        state["can_log"] = True
        return LE1, emits
    if sub == 11 or sub == 12:
        if not known(version, state, emits, node):
            return ZERO, emits
        if sub == 11:
            nodes[node]["sketch_name"] = payload
        else:
            nodes[node]["sketch_version"] = payload
        return ONE, emits
    if sub == 14:
        if v20(version):
            route(state, emits, (255, child, 3, 20, ""))
        return LE1, emits
    if v20(version) and sub == 21:
        known(version, state, emits, node)
        return ZERO, emits
    if v20(version) and sub == 22:
        if not known(version, state, emits, node):
            return ZERO, emits
        if version != "2.2":
            wake_up(state, emits, node)
        nodes[node]["heartbeat"] = int(payload)
        return ONE, emits
    if version == "2.2" and sub == 32:
        if not known(version, state, emits, node):
            return ZERO, emits
        wake_up(state, emits, node)
        return LE1, emits
    return LE1, emits


def ref_set_child_value(version, state, node, child, value_type, value, node_types=None):
    """Controller call set_child_value with a value type / value that is valid for the gateway's
    version.  Returns ('ok' | 'raises' | 'may-refuse', expected emissions).  `node_types` maps a
    node's presented version to the value types that carry this value in that version: a desired
    value for a sleeping node that is not valid for the node's own version may be refused to the
    caller (C08: refused at call time) - the caller of this function applies the update with
    ref_apply_desired when the call was accepted."""
    emits = []
    if not known(version, state, emits, node, child):
        return "ok", emits
    me = state["nodes"][node]
    if sleeping(me):
        if child not in me["desired"]:
            return "raises", emits  # presented after the last wake-up: refused to the caller
        if node_types is not None and value_type not in node_types[me["version"]]:
            return "may-refuse", emits
        me["desired"][child][value_type] = value
        return "ok", emits
    emits.append((node, child, 1, value_type, value))
    return "ok", emits


def ref_apply_desired(state, node, child, value_type, value):
    state["nodes"][node]["desired"][child][value_type] = value


def ref_update_fw(state, node_ids, fw_id, fware):
    """Controller call update_fw(nids, type, version, image): the image is stored under its id and
    every *known* node of the list is (re)scheduled: any earlier session of it restarts from the
    config step and a reboot is requested."""
    ota = state["ota"]
    ota["firmware"][fw_id] = fware
    for nid in node_ids:
        if nid not in state["nodes"]:
            continue
        ota["unstarted"].pop(nid, None)
        ota["started"].pop(nid, None)
        ota["requested"][nid] = fw_id
        state["nodes"][nid]["reboot"] = True
