"""Reference predicate S_v for C03: the MySensors serial API 1.4 - 2.2 as
(version -> command -> sub-type -> payload rule), transcribed from the serial-API documents and
the property statement - NOT derived from the repository's tables.

The module is plain Python over the engine's value kinds and is executed by the same AST
interpreter as the repository code (module prefix `verifspec` is in the interpreted set), so
"implementation accepts  <=>  specification accepts" is a solver query on every path.
"""

COMMANDS = {0: "presentation", 1: "set", 2: "req", 3: "internal", 4: "stream"}

# largest defined sub-type per command and version (sub-types are 0..max, no holes)
MAX_SUB = {
    "1.4": {0: 25, 1: 39, 2: 39, 3: 14, 4: 5},
    "1.5": {0: 35, 1: 46, 2: 46, 3: 17, 4: 5},
    "2.0": {0: 39, 1: 56, 2: 56, 3: 28, 4: 5},
    "2.1": {0: 39, 1: 56, 2: 56, 3: 28, 4: 5},
    "2.2": {0: 39, 1: 56, 2: 56, 3: 33, 4: 5},
}

# payload rule classes
ANY, EMPTY, BIN, PCT, INT, GPS, HEX6, HEX8, VERSION, CONFIG, TIME = (
    "ANY", "EMPTY", "BIN", "PCT", "INT", "GPS", "HEX6", "HEX8", "VERSION", "CONFIG", "TIME")

HVAC_FLOW_STATE = ("Off", "HeatOn", "CoolOn", "AutoChangeOver")
HVAC_SPEED = ("Min", "Normal", "Max", "Auto")


def set_rule(version, sub):
    """Payload rule of set sub-type `sub` (an int that is defined in `version`)."""
    if sub in (2, 15, 16, 36):  # V_LIGHT/V_STATUS, V_ARMED, V_TRIPPED, V_LOCK_STATUS
        return (BIN,)
    if sub == 3:  # V_DIMMER / V_PERCENTAGE
        return (PCT,)
    if sub == 21:  # V_HEATER (1.4) / V_HVAC_FLOW_STATE
        return ("WORDS", HVAC_FLOW_STATE)
    if sub == 22:
        if version == "1.4":  # V_HEATER_SW
            return (BIN,)
        return ("WORDS", HVAC_SPEED)  # V_HVAC_SPEED
    if sub == 23:  # V_LIGHT_LEVEL: percentage as a decimal number
        return ("FLOAT", 0, 100)
    if sub == 40:
        return (HEX6,)
    if sub == 41:
        return (HEX8,)
    if sub in (44, 45):  # HVAC set points (the implementation documents 0.0 .. 100.0)
        return ("FLOAT", 0, 100)
    if sub == 49:
        return (GPS,)
    if sub == 56:  # V_POWER_FACTOR
        return ("FLOAT", -1, 1)
    return (ANY,)


def internal_rule(version, sub):
    if sub == 0:
        return (PCT,)
    if sub == 1:
        return (TIME,)
    if sub in (3, 7, 13, 18, 19, 20):  # id request, find parent, reboot, heartbeat req,
        return (EMPTY,)                # presentation req, discover req
    if sub == 4:
        return ("ID", 1, 254)
    if sub == 5:
        return (BIN,)
    if sub == 6:
        return (CONFIG,)
    if sub in (8, 21):
        return ("ID", 0, 254)
    if sub in (22, 24, 25, 30, 31, 32, 33):  # counters / hop counters / sleep durations
        return (INT,)
    return (ANY,)


def presentation_rule(version, sub):
    if sub == 17:
        return (VERSION,)
    if sub == 18 and True:
        return (VERSION,)
    return (ANY,)


def rule_for(version, command, sub):
    if command == 0:
        return presentation_rule(version, sub)
    if command == 1:
        return set_rule(version, sub)
    if command == 2:
        return (EMPTY,)
    if command == 3:
        return internal_rule(version, sub)
    return (ANY,)


def try_int(text):
    try:
        return True, int(text)
    except ValueError:
        return False, 0


def is_float(text):
    try:
        float(text)
        return True
    except ValueError:
        return False


def float_in(text, lo, hi):
    try:
        value = float(text)
    except ValueError:
        return False
    if not value >= lo:
        return False
    if not value <= hi:
        return False
    return True


def is_hex(text, n):
    if len(text) != n:
        return False
    for ch in text:
        if ch not in "0123456789abcdefABCDEF":
            return False
    return True


def payload_ok(rule, payload, version_ok):
    kind = rule[0]
    if kind == ANY:
        return True
    if kind == EMPTY:
        return payload == ""
    if kind == BIN:
        return payload == "0" or payload == "1"
    if kind == PCT:
        ok, value = try_int(payload)
        return ok and 0 <= value and value <= 100
    if kind == INT:
        ok, value = try_int(payload)
        return ok
    if kind == TIME:
        if payload == "":
            return True
        ok, value = try_int(payload)
        return ok
    if kind == "ID":
        ok, value = try_int(payload)
        return ok and rule[1] <= value and value <= rule[2]
    if kind == CONFIG:
        if payload == "M" or payload == "I":
            return True
        ok, value = try_int(payload)
        return ok and 0 <= value and value <= 254
    if kind == "WORDS":
        for word in rule[1]:
            if payload == word:
                return True
        return False
    if kind == "FLOAT":
        return float_in(payload, rule[1], rule[2])
    if kind == HEX6:
        return is_hex(payload, 6)
    if kind == HEX8:
        return is_hex(payload, 8)
    if kind == GPS:
        parts = payload.split(",")
        if len(parts) != 3:
            return False
        for part in parts:
            if not is_float(part):
                return False
        return True
    if kind == VERSION:
        return version_ok(payload)
    return False


def header_ok(version, node, child, command, ack, sub):
    """Everything except the payload."""
    if command not in (0, 1, 2, 3, 4):
        return False
    if not (0 <= node and node <= 255):
        return False
    if not (0 <= child and child <= 255):
        return False
    if ack != 0 and ack != 1:
        return False
    if child == 255 and command in (1, 2):
        return False
    if command in (3, 4) and child != 255:
        if not (command == 3 and (sub == 3 or sub == 4)):
            return False
    if not (0 <= sub and sub <= MAX_SUB[version][command]):
        return False
    return True


def accepts(version, node, child, command, ack, sub, payload, version_ok):
    if not header_ok(version, node, child, command, ack, sub):
        return False
    return payload_ok(rule_for(version, command, sub), payload, version_ok)
