"""Reference meaning of an Intel-HEX file (the format's definition, written independently of the
`intelhex` package): a data record `:LLAAAA00DD..CC` places its LL data bytes at consecutive
addresses starting at base + AAAA, where base is 0 until an extended segment address record
(type 02, base = word * 16) or an extended linear address record (type 04, base = word * 65536)
changes it; start address records (03, 05) and the EOF record (01) carry no data; everything
after the EOF record is ignored.  The bytes a file encodes, as one image, are the bytes from the
lowest to the highest data address; addresses in between that no record covers hold the erased
flash value 0xFF."""

ERASED = 0xFF


def segment_base(word):
    return word * 16


def linear_base(word):
    return word * 65536


def data_record(mem, base, addr, data):
    """Append (address, byte) pairs of one data record; addresses are plain ints."""
    for i, b in enumerate(data):
        mem.append((base + addr + i, b))


def image(mem):
    """None: no data at all; "overlap": two records claim one address (no single meaning);
    otherwise the list of bytes from the lowest to the highest address."""
    if not mem:
        return None
    addrs = [a for a, _ in mem]
    if len(set(addrs)) != len(addrs):
        return "overlap"
    cells = dict(mem)
    return [cells.get(a, ERASED) for a in range(min(addrs), max(addrs) + 1)]
