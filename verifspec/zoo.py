"""Construct zoo: small functions in the style a maintainer might write, run on symbolic values."""
import contextlib
import functools
import itertools
from collections import OrderedDict, defaultdict, namedtuple
from dataclasses import dataclass
from typing import NamedTuple


def f_partition(s):
    head, sep, tail = s.partition(";")
    return head, sep, tail


def f_rpartition(s):
    return s.rpartition(";")


def f_rsplit(s):
    return s.rsplit(";", 1)


def f_startswith(s):
    return s.startswith("ab") or s.endswith(("x", "y"))


def f_fstring(n, s):
    return f"{n};{s}\n"


def f_format(n, s):
    return "{};{}".format(n, s)


def f_percent(n, s):
    return "%d;%s" % (n, s)


def f_join(n, m, s):
    return ";".join(str(x) for x in (n, m)) + ";" + s


def f_join_list(n, m, s):
    return ";".join([str(n), str(m), s])


def f_walrus(s):
    if (n := len(s)) > 1:
        return n
    return 0


def f_ternary_chain(n):
    return "neg" if n < 0 else "zero" if n == 0 else "pos"


def f_dictcomp(n, m):
    return {k: k + 1 for k in (n, m)}


def f_listcomp_filter(n, m):
    return [x for x in (n, m, 3) if x > 2]


def f_any_all(n, m):
    return any(x > 5 for x in (n, m)), all(x > 5 for x in (n, m))


def f_enumerate_zip(n, m):
    out = []
    for i, (a, b) in enumerate(zip((n, m), (1, 2))):
        out.append((i, a + b))
    return out


def f_sorted(n, m):
    return sorted([n, m])


def f_minmax(n, m):
    return min(n, m), max(n, m, 7)


def f_try_finally(s):
    out = []
    try:
        out.append(int(s))
    except ValueError:
        out.append(-1)
    else:
        out.append(0)
    finally:
        out.append(99)
    return out


def f_suppress(s):
    with contextlib.suppress(ValueError):
        return int(s)
    return None


def f_isdigit(s):
    return s.isdigit() and int(s) <= 255


def f_strip_split_map(s):
    return list(map(int, s.strip().split(";")))


def f_unpack_star(s):
    *head, last = s.split(";")
    return head, last


def f_slice(s):
    return s[:-1], s[1:], s[::-1] if not s else s[0]


def f_in_tuple(n):
    return n in (0, 1) and n not in {5, 6}


def f_in_range(n):
    return n in range(0, 256)


def f_chained_cmp(n):
    return 0 <= n <= 255


def f_bool_ops(n, s):
    return (n and s) or "empty"


def f_int_ops(n, m):
    return n // 16, n % 16, n << 2, n >> 1, n & 0xFF, n | 1, n ^ 3, -n, abs(n), divmod(n, 7) if m else None


def f_str_mul_concat(s):
    return s * 2 + "x"


def f_lower_upper(s):
    return s.lower(), s.upper()


def f_replace(s):
    return s.replace(";", "/")


def f_find_index(s):
    return s.find(";"), s.count(";")


def f_encode_decode(s):
    return s.encode("utf-8").decode("utf-8")


def f_bytes_ops(s):
    b = s.encode()
    return b + b"\n", len(b), b[:1], b.strip()


Pair = namedtuple("Pair", "a b")


def f_namedtuple(n, m):
    p = Pair(n, m)
    return p.a + p.b, p._replace(a=1)


@dataclass
class Box:
    a: int
    b: str = "x"


def f_dataclass(n, s):
    b = Box(n, s)
    return b.a, b.b, b == Box(n, s)


def f_defaultdict(n):
    d = defaultdict(list)
    d[n].append(1)
    return len(d[n])


def f_dict_methods(n, m):
    d = {n: "a"}
    d.setdefault(m, "b")
    v = d.pop(n, None)
    return v, d.get(m), list(d.items()), m in d


def f_partial(n):
    add = functools.partial(lambda a, b: a + b, 1)
    return add(n)


def f_lambda_sort(n, m):
    return sorted([(n, "a"), (m, "b")], key=lambda t: t[0])


def f_generator(n):
    def gen():
        yield n
        yield n + 1
    return list(gen())


def f_global_const(n):
    return n == MAXV


MAXV = 254


def f_isinstance(x):
    if isinstance(x, int):
        return "int"
    if isinstance(x, str):
        return "str"
    return "other"


def f_str_of(x):
    return str(x), repr(x) if isinstance(x, int) else None


def f_int_base(s):
    return int(s, 16), int(s, 0) if s.startswith("0x") else None


def f_float(s):
    v = float(s)
    return 0 <= v <= 100, round(v), int(v)


def f_assert(n):
    assert n >= 0, "negative"
    return n


def f_while_counter(n):
    i = 0
    while i < 3 and i < n:
        i += 1
    return i


def f_nested_func_nonlocal(n):
    total = 0

    def add(x):
        nonlocal total
        total += x
    add(n)
    add(1)
    return total


def f_class_property(n):
    class T:
        def __init__(self, v):
            self._v = v

        @property
        def v(self):
            return self._v

        @v.setter
        def v(self, x):
            self._v = x

        @staticmethod
        def s(x):
            return x + 1

        @classmethod
        def c(cls, x):
            return cls(x)
    t = T.c(n)
    t.v = t.v + 1
    return t.v, T.s(n)


def f_exception_chain(s):
    try:
        try:
            return int(s)
        except ValueError as exc:
            raise KeyError(s) from exc
    except KeyError:
        return None


def f_getattr_default(n):
    class O:
        pass
    o = O()
    o.x = n
    return getattr(o, "x", 0) + getattr(o, "y", 1), hasattr(o, "x")


def f_chain(n, m):
    return list(itertools.chain([n], [m]))


def f_set_ops(n, m):
    s = {n, m}
    s.add(3)
    s.discard(n)
    return len(s) >= 1


def f_ordered(n):
    d = OrderedDict()
    d[n] = 1
    return next(iter(d))


def f_matchcase(n):
    match n:
        case 0:
            return "zero"
        case 1 | 2:
            return "small"
        case _:
            return "big"


def f_ba_partition(b):
    buf = bytearray()
    buf.extend(b)
    head, sep, tail = buf.partition(b"\n")
    return bytes(head), bytes(sep), bytes(tail)


def f_ba_find(b):
    buf = bytearray(b)
    i = buf.find(b"\n")
    if i < 0:
        return None
    line, rest = buf[:i], buf[i + 1:]
    return bytes(line), bytes(rest)


def f_b_split(b):
    *lines, rest = b.split(b"\n")
    return lines, rest


def f_b_iadd(b):
    buf = b""
    buf += b
    return buf.endswith(b"\n"), len(buf), buf[-1:] == b"\n"


def f_b_index(b):
    return b[0] if b else None, list(b)


def f_b_splitlines(b):
    return b.splitlines()
